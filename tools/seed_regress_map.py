"""Cross-property catches: seeds whose own check is (also) complemented by another property's check."""
EXTRA = {
    "C06_seed_1": ["C08"], "C06_w2_seed_2": ["C16"], "C12_w2_seed_3": ["C02"], "C01_w3_seed_1": ["C03"], "C03_w3_seed_1": ["C02"],
    "C05_w3_seed_3": ["C08"], "C06_w3_seed_3": ["C07"], "C11_w3_seed_3": ["C15"], "C13_w3_seed_2": ["C19", "C08"], "C13_w3_seed_3": ["C08"],
    "C14_w3_seed_3": ["C06"], "C17_w3_seed_2": ["C08"],
    # wave 4
    "C01_w4_seed_1": ["C03"], "C02_w4_seed_3": ["C12"], "C05_w4_seed_1": ["C08"], "C05_w4_seed_2": ["C08"], "C06_w4_seed_1": ["C07"], "C06_w4_seed_2": ["C08"],
    "C09_w4_seed_1": ["C19", "C06"], "C09_w4_seed_2": ["C08"], "C09_w4_seed_3": ["C05", "C06"], "C12_w4_seed_1": ["C02"],
    "C12_w4_seed_2": ["C02", "C14"], "C14_w4_seed_2": ["C05", "C09"], "C14_w4_seed_3": ["C04"], "C20_w4_seed_2": ["C08"], "C17_w4_seed_3": ["C12"],
    # wave 6
    "C01_w6_seed_1": ["C03"], "C01_w6_seed_2": ["C03"], "C01_w6_seed_3": ["C03", "C10"], "C03_w6_seed_3": ["C02"], "C04_w6_seed_2": ["C05", "C06"],
    "C05_w6_seed_2": ["C08"], "C05_w6_seed_3": ["C06", "C08"], "C07_w6_seed_1": ["C06"], "C08_w6_seed_1": ["C07"], "C09_w6_seed_3": ["C16"],
    "C10_w6_seed_1": ["C06"], "C10_w6_seed_2": ["C06", "C07"], "C12_w6_seed_3": ["C02"], "C13_w6_seed_1": ["C06"], "C14_w6_seed_3": ["C04", "C10"],
    "C19_w6_seed_1": ["C05", "C06"],
    # restarts of time-reversed runs (C08 extended in session 3)
    "C10_w4_seed_2": ["C08"], "C10_w6_seed_3": ["C08"],
    # wave 7
    "C01_w7_seed_1": ["C03"], "C05_w7_seed_3": ["C07"], "C06_w7_seed_3": ["C19"], "C09_w7_seed_2": ["C19", "C14"], "C09_w7_seed_3": ["C18"],
    "C11_w7_seed_3": ["C19", "C14"], "C12_w7_seed_3": ["C02"], "C14_w7_seed_2": ["C19"], "C15_w7_seed_2": ["C19", "C14"], "C15_w7_seed_3": ["C02"],
    "C17_w7_seed_2": ["C16"], "C01_w7_seed_2": ["C02"], "C01_w7_seed_3": ["C10", "C03"], "C19_w7_seed_1": ["C18"], "C02_w7_seed_2": ["C14"], "C02_w7_seed_3": ["C14"], "C04_w7_seed_3": ["C16"], "C18_w7_seed_1": ["C14", "C19"],
    # wave 8
    "C15_w8_seed_2": ["C02"], "C09_w8_seed_2": ["C08"], "C03_w8_seed_2": ["C20", "C14"], "C06_w8_seed_1": ["C08"], "C09_w8_seed_1": ["C05"], "C01_w8_seed_1": ["C05"],
    "C11_w8_seed_2": ["C19"], "C04_w8_seed_1": ["C08"], "C19_w8_seed_2": ["C02"], "C14_w8_seed_1": ["C09"], "C05_w8_seed_2": ["C06"], "C17_w8_seed_1": ["C02"],
    "C17_w8_seed_2": ["C09"], "C08_w8_seed_1": ["C02"], "C19_w8_seed_1": ["C06"], "C02_w8_seed_2": ["C03"],
}
