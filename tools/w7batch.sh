#!/bin/sh
# usage: tools/w7batch.sh C01 C02 ...   -> confirms and runs every /tmp/wt7/<P>/seed_k, keeps them as <P>_w7_seed_k
cd /verif
for P in "$@"; do
  git -C /tmp/wt7/$P checkout -q -- ladim; git -C /tmp/wt7/$P checkout -q --detach $(git -C /repo rev-parse HEAD) # follow fix: commits made while the authors worked
  for sd in /tmp/wt7/$P/seed_*; do
    [ -f "$sd/patch.diff" ] || continue
    k=$(basename $sd)
    echo "== $P $k"
    tools/seedtest.py $P /tmp/wt7/$P $k --keep ${P}_w7_$k 2>&1 | grep -E '"rc"|^\s+"  \[|NOT CONF|does not apply' | head -3 | cut -c1-330
  done
done
