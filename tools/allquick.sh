#!/bin/sh
# usage: tools/allquick.sh [seeds...]  — every quick check on the (clean) tree for each VERIF_SEED; prints one line per run
cd /verif
for sd in ${@:-0 1 2}; do
  for p in C01 C02 C03 C04 C05 C06 C07 C08 C09 C10 C11 C12 C13 C14 C15 C16 C17 C18 C19 C20; do
    out=$(VERIF_SEED=$sd ./check $p --tier quick 2>&1); rc=$?
    echo "seed=$sd $p rc=$rc $(echo "$out" | grep -E 'tier=' | sed 's/.*cases=/cases=/' | cut -c1-120)"
    echo "$out" | grep -E '^VIOLATION|^HARNESS|^  \[' | head -3 | cut -c1-300
  done
done
echo ALLQUICK-DONE
