#!/venv/bin/python
"""Process property-PRESERVING changes delivered by sub-agents (false-alarm test of the checks).

usage: tools/benign_batch.py [-j N] [--checks C01,C02,...|all] SRC_ROOT NAME...      e.g. tools/benign_batch.py /tmp/wt5 C01 C02
For every SRC_ROOT/<NAME>/benign_k/ (patch.diff, demo.py, notes.md): store it as /verif/benign/<NAME>_b5_k/, then in a scratch worktree of
/repo's HEAD (never /repo itself): apply the patch, run the pinned test suite and compare the set of failing tests with the baseline,
run the demo, run the quick checks (default: all 20) with PYTHONPATH / LADIM2_VERIF_REPO pointing at the worktree. Any VIOLATION or
non-zero exit is reported as ALARM and must be triaged by hand: either the change does break a property (then it is not benign) or
the check is wrong. Results go to /verif/benign/<name>/meta.json. Worktrees are removed at the end.
"""
import json, os, re, shutil, subprocess, sys
from concurrent.futures import ThreadPoolExecutor
from pathlib import Path
from queue import Queue

BEN = Path("/verif/benign")
# which checks exercise which source file (used by `--checks auto`: the focus property's check + the checks of the files a patch touches)
TOUCH = {
    "tracker.py": "C01 C09 C10 C11 C14 C15 C17 C19", "ROMS.py": "C01 C02 C03 C08 C09 C10 C12 C14 C15 C16 C17 C20", "release.py": "C04 C07 C08 C10 C14 C19 C20",
    "out_netcdf.py": "C05 C06 C07 C08 C10 C16 C19", "state.py": "C04 C05 C06 C08", "configure.py": "C08 C18 C20", "model.py": "C06 C07 C14 C19 C20",
    "main.py": "C07 C18 C19 C20", "timekeeper.py": "C06 C07 C10 C13", "sample.py": "C14 C16", "warm_start.py": "C08 C19", "analytical.py": "C01", "grid.py": "C16 C20",
}
ONLY = None
ROOT = Path(os.environ.get("BNW", "/tmp/bnw"))
ALL = [f"C{k:02d}" for k in range(1, 21)]
args = sys.argv[1:]
J, checks, BASE, WAVE = 3, ALL, "HEAD", "b5"
while args and args[0].startswith("-"):
    if args[0] == "-j":
        J = int(args[1]); args = args[2:]
    elif args[0] == "--base":  # another base commit (a change written against an older tree that does not apply to HEAD)
        BASE = args[1]; args = args[2:]
    elif args[0] == "--wave":  # name suffix of the stored change: <NAME>_<wave>_<k>
        WAVE = args[1]; args = args[2:]
    elif args[0] == "--only":  # NAME_b5_k,... restrict to these
        ONLY = args[1].split(","); args = args[2:]
    elif args[0] == "--checks":
        checks = ALL if args[1] == "all" else ["auto"] if args[1] == "auto" else args[1].split(","); args = args[2:]
src = Path(args[0]); names = args[1:]
sh = lambda c, **k: subprocess.run(c, shell=True, capture_output=True, text=True, **k)  # noqa: E731
head = sh(f"git -C /repo rev-parse --short {BASE}").stdout.strip()
ROOT.mkdir(parents=True, exist_ok=True)
pool = Queue()
for k in range(J):
    wt = ROOT / f"wt{k}"
    if wt.exists():
        sh(f"git -C /repo worktree remove --force {wt}")
    r = sh(f"git -C /repo worktree add --detach {wt} {BASE}")
    assert r.returncode == 0, r.stderr
    pool.put(wt)


def failing(wt):
    o = sh(f"cd {wt} && PYTHONPATH={wt} /venv/bin/python -m pytest -q -p no:cacheprovider -x --co -q test >/dev/null 2>&1; "
           f"cd {wt} && PYTHONPATH={wt} /venv/bin/python -m pytest -q -p no:cacheprovider -rf test 2>&1 | tail -15").stdout
    return sorted(set(re.findall(r"FAILED (\S+)", o))), (o.strip().splitlines() or [""])[-1]


base_fail, base_tail = failing(ROOT / "wt0")
print("baseline:", base_tail, flush=True)
jobs = []
if str(src) == "stored":  # re-run the changes kept under /verif/benign (names = prefixes, none = all)
    jobs = [d for d in sorted(BEN.iterdir()) if d.is_dir() and f"_{WAVE}_" in d.name and (not names or any(d.name.startswith(n) for n in names)) and (ONLY is None or d.name in ONLY)]
    names = []
for n in names:
    for bd in sorted((src / n).glob("benign_*")):
        if (bd / "patch.diff").exists():
            k = bd.name.split("_")[1]
            dst = BEN / f"{n}_{WAVE}_{k}"
            dst.mkdir(parents=True, exist_ok=True)
            for f in ("patch.diff", "demo.py", "notes.md"):
                if (bd / f).exists() and not (dst / f).exists():
                    shutil.copy(bd / f, dst / f)
            if ONLY is None or dst.name in ONLY:
                jobs.append(dst)


def one(dst):
    wt = pool.get()
    try:
        meta = dict(focus=dst.name[:3], repo_head=head)
        prev = json.loads((dst / "meta.json").read_text()) if (dst / "meta.json").exists() else {}
        r = sh(f"git -C {wt} apply {dst / 'patch.diff'}")
        if r.returncode != 0:
            # written against an older base: keep the results obtained there, only record that it does not apply to this HEAD
            prev["applies_to"] = dict(prev.get("applies_to", {}), **{head: False})
            (dst / "meta.json").write_text(json.dumps(prev or meta, indent=1))
            return dst.name, []
        alarms = []
        try:
            f, tail = failing(wt)
            meta["tests_same"] = f == base_fail
            meta["tests_tail"] = tail
            if f != base_fail:
                alarms.append(f"tests differ: {sorted(set(f) ^ set(base_fail))}")
            if (dst / "demo.py").exists():
                shutil.copytree(dst, wt / "benign_x", dirs_exist_ok=True)
                d = sh(f"cd {wt} && PYTHONPATH={wt} timeout 300 /venv/bin/python benign_x/demo.py")
                meta["demo_rc"] = d.returncode
                if d.returncode != 0:
                    alarms.append(f"demo rc={d.returncode}: {(d.stdout + d.stderr)[-200:]}")
            env = dict(os.environ, PYTHONPATH=str(wt), LADIM2_VERIF_REPO=str(wt), LADIM2_VERIF_OUT=str(ROOT / f"out_{wt.name}"))
            res = {}
            todo = checks
            if checks == ["auto"]:
                files = re.findall(r"^\+\+\+ b/ladim/(\S+)", (dst / "patch.diff").read_text(), re.M)
                todo = sorted({dst.name[:3]} | {c for f in files for c in TOUCH.get(f, " ".join(ALL)).split()})
            for p in todo:
                o = subprocess.run(f"./check {p} --tier quick", shell=True, cwd="/verif", capture_output=True, text=True, env=env)
                res[p] = o.returncode
                if o.returncode != 0:
                    lines = [l.strip()[:400] for l in o.stdout.splitlines() if l.startswith(("  [", "HARNESS", "VIOLATION"))][:4]
                    alarms.append(f"{p} rc={o.returncode}: " + " | ".join(lines))
            # results of checks not re-run in this pass are kept from the previous pass (with the base commit they were obtained on)
            meta["checks"] = dict(prev.get("checks", {}), **res)
            meta["checks_head"] = dict(prev.get("checks_head", {k: prev.get("repo_head") for k in prev.get("checks", {})}), **{k: head for k in res})
            alarms += [a for a in prev.get("alarms", []) if a[:3] in meta["checks"] and a[:3] not in res]
        finally:
            sh(f"git -C {wt} checkout -- . && git -C {wt} clean -fdq")
        meta["alarms"] = alarms
        (dst / "meta.json").write_text(json.dumps(meta, indent=1))
        return dst.name, alarms
    finally:
        pool.put(wt)


bad = []
try:
    with ThreadPoolExecutor(J) as ex:
        for name, alarms in ex.map(one, jobs):
            print(f"{name}: {'silent (or not applicable to this HEAD)' if not alarms else 'ALARM'}", flush=True)
            for a in alarms:
                print("    " + a[:600], flush=True)
            if alarms:
                bad.append(name)
finally:
    for k in range(J):
        sh(f"git -C /repo worktree remove --force {ROOT / f'wt{k}'}")
    sh("git -C /repo worktree prune")
    shutil.rmtree(ROOT, ignore_errors=True)
print("alarms:", bad)
