#!/bin/sh
# usage: tools/runseed.sh <seeded-name> <PROP> [PROP...]   (env TIER=quick|thorough)
# Applies /verif/benign/<name>/patch.diff to /repo, runs the checks, and always reverts.
name=$1; shift
cd /verif || exit 2
git -C /repo apply /verif/benign/$name/patch.diff || { echo "patch does not apply"; exit 4; }
trap 'git -C /repo checkout -- .' EXIT INT TERM
for p in "$@"; do
  ./check $p --tier ${TIER:-quick} > /dev/shm/runseed_$$.out 2>&1; rc=$?
  echo "$name vs $p: rc=$rc $(grep -c '^VIOLATION' /dev/shm/runseed_$$.out) violation line(s)"
  grep -E '^  \[|^HARNESS' /dev/shm/runseed_$$.out | head -${LINES_:-2}
done
rm -f /dev/shm/runseed_$$.out
