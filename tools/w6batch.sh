#!/bin/sh
# usage: tools/w2batch.sh C01 C02 ...   -> confirms and runs every /tmp/wt6/<P>/seed_k, keeps them as <P>_w6_seed_k
cd /verif
for P in "$@"; do
  for sd in /tmp/wt6/$P/seed_*; do
    [ -f "$sd/patch.diff" ] || continue
    k=$(basename $sd)
    echo "== $P $k"
    tools/seedtest.py $P /tmp/wt6/$P $k --keep ${P}_w6_$k 2>&1 | grep -E '"rc"|^\s+"  \[|NOT CONF|does not apply' | head -3 | cut -c1-330
  done
done
