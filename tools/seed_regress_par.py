#!/venv/bin/python
"""Re-run every stored seed against its check(s) in PARALLEL scratch worktrees (never touches /repo's working tree).

usage: tools/seed_regress_par.py [-j N] [name-prefix ...]     (env TIER=quick|thorough)
Each worker owns one worktree /tmp/srw/<k> of /repo's HEAD; the checks run with PYTHONPATH / LADIM2_VERIF_REPO pointing at it and
LADIM2_VERIF_OUT pointing at a scratch directory, so evidence/ and replays/ under /verif are not overwritten. Updates seeded/<name>/meta.json.
The worktrees are removed at the end.
"""
import json, os, shutil, subprocess, sys
from concurrent.futures import ThreadPoolExecutor
from pathlib import Path
from queue import Queue

sys.path.insert(0, "/verif/tools")
from seed_regress_map import EXTRA  # noqa: E402

SEEDED = Path("/verif/seeded")
ROOT = Path("/tmp/srw")
tier = os.environ.get("TIER", "quick")
args = sys.argv[1:]
J = 4
if args[:1] == ["-j"]:
    J = int(args[1]); args = args[2:]
names = [d.name for d in sorted(SEEDED.iterdir()) if d.is_dir() and (not args or any(d.name.startswith(p) for p in args))]
sh = lambda c, **k: subprocess.run(c, shell=True, capture_output=True, text=True, **k)  # noqa: E731
head = sh("git -C /repo rev-parse --short HEAD").stdout.strip()
assert sh("git -C /repo status --porcelain").stdout.strip() == "", "/repo is not clean"
ROOT.mkdir(parents=True, exist_ok=True)
pool = Queue()
for k in range(J):
    wt = ROOT / f"wt{k}"
    if wt.exists():
        sh(f"git -C /repo worktree remove --force {wt}")
    r = sh(f"git -C /repo worktree add --detach {wt} HEAD")
    assert r.returncode == 0, r.stderr
    pool.put(wt)


def one(name):
    wt = pool.get()
    try:
        meta = json.loads((SEEDED / name / "meta.json").read_text())
        props = [meta["property"]] + EXTRA.get(name, [])
        r = sh(f"git -C {wt} apply {SEEDED / name / 'patch.diff'}")
        if r.returncode != 0:
            meta["applies_to_head"] = False
            (SEEDED / name / "meta.json").write_text(json.dumps(meta, indent=1))
            return name, None, f"patch does not apply: {r.stderr.strip()[:200]}"
        det, lines, rcs = [], {}, {}
        try:
            env = dict(os.environ, PYTHONPATH=str(wt), LADIM2_VERIF_REPO=str(wt), LADIM2_VERIF_OUT=str(ROOT / f"out_{wt.name}"))
            for p in props:
                o = subprocess.run(f"./check {p} --tier {tier}", shell=True, cwd="/verif", capture_output=True, text=True, env=env)
                rcs[p] = o.returncode
                v = [l for l in o.stdout.splitlines() if l.startswith("VIOLATION")]
                if v:
                    det.append(p)
                    lines[p] = [l.strip()[:300] for l in o.stdout.splitlines() if l.startswith("  [")][:2]
        finally:
            sh(f"git -C {wt} checkout -- . && git -C {wt} clean -fdq")
        meta.update(applies_to_head=True, detected_by=det, detected={p: p in det for p in props}, first_lines=lines, checked_tier=tier, repo_head=head, exit_codes=rcs)
        (SEEDED / name / "meta.json").write_text(json.dumps(meta, indent=1))
        return name, det, rcs
    finally:
        pool.put(wt)


missed = []
try:
    with ThreadPoolExecutor(J) as ex:
        for name, det, info in ex.map(one, names):
            print(f"{name}: {'caught by ' + ','.join(det) if det else ('MISSED ' + str(info))}", flush=True)
            if not det:
                missed.append(name)
finally:
    for k in range(J):
        sh(f"git -C /repo worktree remove --force {ROOT / f'wt{k}'}")
    sh("git -C /repo worktree prune")
    shutil.rmtree(ROOT, ignore_errors=True)
print("missed:", missed)
sys.exit(1 if missed else 0)
