#!/bin/sh
# usage: tools/runpatch.sh <patch.diff> <PROP> [PROP...]   (env TIER=quick|thorough, WT=/tmp/rswt)
# Applies a patch in a SCRATCH worktree of /repo's HEAD (never /repo itself), runs the checks against it, removes the worktree.
patch=$(readlink -f "$1"); shift
wt=${WT:-/tmp/rswt_$$}
git -C /repo worktree add --detach "$wt" HEAD -q || exit 2
trap 'git -C /repo worktree remove --force "$wt"; rm -rf /dev/shm/runpatch_out_$$ /dev/shm/runpatch_$$.out' EXIT INT TERM
git -C "$wt" apply "$patch" || { echo "patch does not apply"; exit 4; }
cd /verif || exit 2
for p in "$@"; do
  PYTHONPATH="$wt" LADIM2_VERIF_REPO="$wt" LADIM2_VERIF_OUT=/dev/shm/runpatch_out_$$ ./check $p --tier ${TIER:-quick} > /dev/shm/runpatch_$$.out 2>&1; rc=$?
  echo "$(basename $(dirname $patch)) vs $p: rc=$rc $(grep -c '^VIOLATION' /dev/shm/runpatch_$$.out) violation line(s)"
  grep -E '^  \[|^HARNESS' /dev/shm/runpatch_$$.out | head -${LINES_:-2}
done
