#!/bin/sh
# usage: tools/allthorough.sh [props...] — thorough tier of every (or the given) check on the clean tree, one line per run
cd /verif
for p in ${@:-C13 C12 C16 C15 C11 C19 C20 C18 C09 C10 C17 C14 C02 C08 C01 C07 C05 C06 C04 C03}; do
  t0=$(date +%s)
  out=$(./check $p --tier thorough 2>&1); rc=$?
  echo "$p rc=$rc $(( $(date +%s) - t0 ))s $(echo "$out" | grep -E 'tier=' | sed 's/.*cases=/cases=/' | cut -c1-140)"
  echo "$out" | grep -E '^VIOLATION|^HARNESS|^  \[' | head -4 | cut -c1-400
done
echo ALLTHOROUGH-DONE
