#!/venv/bin/python
"""Prints the markdown table of seeded changes from seeded/*/meta.json (used for DESIGN.md §14)."""
import json
from pathlib import Path

rows = []
for d in sorted(Path("/verif/seeded").iterdir()):
    m = json.loads((d / "meta.json").read_text())
    notes = (d / "notes.md").read_text() if (d / "notes.md").exists() else ""
    first = next((l.strip("-* #") for l in notes.splitlines() if l.strip() and not l.startswith("#")), "")[:170]
    det = m.get("detected_by") or [p for p, v in m.get("detected", {}).items() if v]
    sig = ""
    for p, ls in m.get("first_lines", {}).items():
        if ls:
            sig = ls[0].strip().split("]")[0].strip(" [")
            break
    rows.append(f"| {d.name} | {m['property']} | {first} | {', '.join(det) or 'MISSED'} | `{sig}` |")
print("| seed | property | change (first line of the author's notes) | caught by (quick tier) | first signature |")
print("|---|---|---|---|---|")
print("\n".join(rows))
