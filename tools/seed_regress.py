#!/venv/bin/python
"""Re-run every seeded change under /verif/seeded against its property's check (quick tier) and record the verdict.

usage: tools/seed_regress.py [name-prefix ...]      (env TIER=quick|thorough, EXTRA="C06_seed_1:C08,...")
Applies each patch to /repo, runs ./check, ALWAYS reverts (git checkout -- .), updates seeded/<name>/meta.json.
"""
import json, os, subprocess, sys
from pathlib import Path

SEEDED = Path("/verif/seeded")
sys.path.insert(0, "/verif/tools")
from seed_regress_map import EXTRA  # noqa: E402
tier = os.environ.get("TIER", "quick")
names = [d.name for d in sorted(SEEDED.iterdir()) if d.is_dir() and (not sys.argv[1:] or any(d.name.startswith(p) for p in sys.argv[1:]))]
assert subprocess.run("git -C /repo status --porcelain", shell=True, capture_output=True, text=True).stdout.strip() == "", "/repo is not clean"
missed = []
for name in names:
    meta = json.loads((SEEDED / name / "meta.json").read_text())
    props = [meta["property"]] + EXTRA.get(name, [])
    r = subprocess.run(f"git -C /repo apply {SEEDED / name / 'patch.diff'}", shell=True, capture_output=True, text=True)
    if r.returncode != 0:
        print(f"{name}: patch does not apply: {r.stderr.strip()[:200]}")
        meta["applies_to_head"] = False
        (SEEDED / name / "meta.json").write_text(json.dumps(meta, indent=1))
        continue
    det, lines = [], {}
    try:
        for p in props:
            out = subprocess.run(f"./check {p} --tier {tier}", shell=True, cwd="/verif", capture_output=True, text=True).stdout
            v = [l for l in out.splitlines() if l.startswith("VIOLATION")]
            if v:
                det.append(p)
                lines[p] = [l.strip()[:300] for l in out.splitlines() if l.startswith("  [")][:2]
    finally:
        subprocess.run("git -C /repo checkout -- .", shell=True)
    meta.update(applies_to_head=True, detected_by=det, detected={p: p in det for p in props}, first_lines=lines, checked_tier=tier,
                repo_head=subprocess.run("git -C /repo rev-parse --short HEAD", shell=True, capture_output=True, text=True).stdout.strip())
    (SEEDED / name / "meta.json").write_text(json.dumps(meta, indent=1))
    print(f"{name}: {'caught by ' + ','.join(det) if det else 'MISSED'}")
    if not det:
        missed.append(name)
print("missed:", missed)
sys.exit(1 if missed else 0)
