#!/venv/bin/python
"""Confirm a seeded change (in a scratch worktree) and run our checks against it.

usage: seedtest.py <PROP> <worktree> <seed_dir_name> [--tier quick] [--props C01,C02] [--keep name]
 1. in the worktree: demo passes on the clean tree, fails with the patch; test-suite result equals the clean-tree result
 2. apply the patch to /repo, run ./check for the property (and any extra), undo
 3. with --keep: store patch/demo/meta under /verif/seeded/<name>/
"""
import argparse, json, os, shutil, subprocess, sys
from pathlib import Path

ap = argparse.ArgumentParser()
ap.add_argument("prop"); ap.add_argument("wt"); ap.add_argument("seed")
ap.add_argument("--tier", default="quick"); ap.add_argument("--props", default=""); ap.add_argument("--keep", default="")
ap.add_argument("--skip-confirm", action="store_true")
a = ap.parse_args()
wt, sd = Path(a.wt), Path(a.wt) / a.seed
patch = sd / "patch.diff"
env = dict(os.environ, PYTHONPATH=str(wt))
def sh(cmd, cwd=None, env=None, timeout=1800):
    r = subprocess.run(cmd, shell=True, cwd=cwd, env=env, capture_output=True, text=True, timeout=timeout)
    return r.returncode, (r.stdout + r.stderr)
def tests():
    rc, out = sh("/venv/bin/python -m pytest -q -p no:cacheprovider test -x --co -q >/dev/null 2>&1; /venv/bin/python -m pytest -q -p no:cacheprovider test 2>&1 | grep -E '^(FAILED|ERROR)|passed|failed' | sort", cwd=wt, env=env)
    return out.strip()
res = dict(prop=a.prop, seed=str(sd))
sh("git checkout -- ladim", cwd=wt)
if not a.skip_confirm:
    base_tests = tests()
    rc0, o0 = sh(f"/venv/bin/python {a.seed}/demo.py", cwd=wt, env=env)
    rc, o = sh(f"git apply {a.seed}/patch.diff", cwd=wt)
    assert rc == 0, o
    mut_tests = tests()
    rc1, o1 = sh(f"/venv/bin/python {a.seed}/demo.py", cwd=wt, env=env)
    sh("git checkout -- ladim", cwd=wt)
    norm = lambda s: "\n".join(l for l in s.splitlines() if not l.startswith("=") or True)
    import re
    strip = lambda s: re.sub(r" in [0-9.]+s", "", re.sub(r"\d+ warnings?", "W", s))
    res.update(demo_clean_rc=rc0, demo_mutant_rc=rc1, tests_same=strip(base_tests) == strip(mut_tests), tests=strip(mut_tests).splitlines()[-1:])
    print(json.dumps(res))
    if not (rc0 == 0 and rc1 != 0 and res["tests_same"]):
        print("NOT CONFIRMED", o0[-500:], o1[-500:], base_tests, mut_tests); sys.exit(3)
# our checks
# (in the scratch worktree itself, never in /repo: PYTHONPATH / LADIM2_VERIF_REPO point the checks at it, evidence goes to a scratch directory)
rc, o = sh(f"git -C {wt} apply {patch}")
if rc != 0:
    print("patch does not apply to the worktree HEAD:", o); sys.exit(4)
verdicts = {}
cenv = dict(os.environ, PYTHONPATH=str(wt), LADIM2_VERIF_REPO=str(wt), LADIM2_VERIF_OUT=f"/dev/shm/seedtest_out_{wt.name}")
try:
    for p in [a.prop] + [x for x in a.props.split(",") if x]:
        rc, out = sh(f"./check {p} --tier {a.tier}", cwd="/verif", env=cenv, timeout=3600)
        lines = [l for l in out.splitlines() if l.startswith("VIOLATION") or l.startswith("  [") or l.startswith("HARNESS")]
        verdicts[p] = dict(rc=rc, lines=lines[:6])
finally:
    sh(f"git -C {wt} checkout -- ladim")
    shutil.rmtree(f"/dev/shm/seedtest_out_{wt.name}", ignore_errors=True)
res["checks"] = verdicts
print(json.dumps(res, indent=1))
if a.keep:
    dst = Path("/verif/seeded") / a.keep
    dst.mkdir(parents=True, exist_ok=True)
    shutil.copy(patch, dst / "patch.diff"); shutil.copy(sd / "demo.py", dst / "demo.py")
    if (sd / "notes.md").exists(): shutil.copy(sd / "notes.md", dst / "notes.md")
    meta = dict(property=a.prop, needs=(sd / "notes.md").read_text()[:1500] if (sd / "notes.md").exists() else "", confirmed=dict(demo_clean_rc=res.get("demo_clean_rc"), demo_mutant_rc=res.get("demo_mutant_rc"), tests_same=res.get("tests_same")),
                ran=[f"./check {p} --tier {a.tier} -> rc={v['rc']}" for p, v in verdicts.items()], detected={p: v["rc"] == 1 for p, v in verdicts.items()}, first_lines={p: v["lines"][:2] for p, v in verdicts.items()}, repo_head=subprocess.run("git -C /repo rev-parse --short HEAD", shell=True, capture_output=True, text=True).stdout.strip())
    (dst / "meta.json").write_text(json.dumps(meta, indent=1))
