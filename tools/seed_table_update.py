#!/venv/bin/python
"""Rewrites the block between the SEED-TABLE markers of DESIGN.md from seeded/*/meta.json (counts + table)."""
import json
import re
import subprocess
from pathlib import Path

V = Path("/verif")
metas = {d.name: json.loads((d / "meta.json").read_text()) for d in sorted((V / "seeded").iterdir()) if (d / "meta.json").exists()}
wave = lambda n: int(re.search(r"_w(\d)_", n).group(1)) if "_w" in n else 1  # noqa: E731
per_wave = {}
for n in metas:
    per_wave[wave(n)] = per_wave.get(wave(n), 0) + 1
det = {n: (m.get("detected_by") or [p for p, v in m.get("detected", {}).items() if v]) for n, m in metas.items()}
caught = [n for n, d in det.items() if d]
missed = [n for n, d in det.items() if not d]
other_only = [n for n in caught if metas[n]["property"] not in det[n]]
table = subprocess.run(["/venv/bin/python", str(V / "tools/seed_table.py")], capture_output=True, text=True, check=True).stdout
intro = (
    f"{len(metas)} confirmed seeds ({' + '.join(str(per_wave[w]) for w in sorted(per_wave))} in waves {', '.join(str(w) for w in sorted(per_wave))}; wave 5 was the "
    "property-preserving wave of §14b). \"caught by\" lists the quick-tier checks that print a VIOLATION for the seed: the property's own check, or - for "
    f"{len(other_only)} seeds - only the check of another property that observes the same behaviour (listed in `tools/seed_regress_map.py`); "
    f"{len(caught)} are caught, {len(missed)} are not ({', '.join('`' + n + '`' for n in missed) or 'none'}) and are explained above. The last column is the first violation "
    "signature printed. Refreshed by `tools/seed_regress_par.py` (scratch worktrees of /repo's HEAD) and `tools/seed_table_update.py`.\n"
)
p = V / "DESIGN.md"
s = p.read_text()
a, b = s.index("<!-- SEED-TABLE-BEGIN -->") + len("<!-- SEED-TABLE-BEGIN -->"), s.index("<!-- SEED-TABLE-END -->")
p.write_text(s[:a] + "\n\n" + intro + "\n" + table + "\n" + s[b:])
print(f"seeds={len(metas)} caught={len(caught)} missed={missed} other-only={len(other_only)} waves={per_wave}")
