#!/bin/sh
# usage: tools/w8batch.sh C01 C02 ...   -> confirms and runs every /tmp/wt8/<P>/seed_k, keeps them as <P>_w8_seed_k
cd /verif
for P in "$@"; do
  git -C /tmp/wt8/$P checkout -q -- ladim; git -C /tmp/wt8/$P checkout -q --detach $(git -C /repo rev-parse HEAD) # follow fix: commits made while the authors worked
  for sd in /tmp/wt8/$P/seed_*; do
    [ -f "$sd/patch.diff" ] || continue
    k=$(basename $sd)
    echo "== $P $k"
    tools/seedtest.py $P /tmp/wt8/$P $k --keep ${P}_w8_$k 2>&1 | grep -E '"rc"|^\s+"  \[|NOT CONF|does not apply' | head -3 | cut -c1-330
  done
done
