#!/bin/sh
# Offline set-up: nothing to build; verify the interpreter, that ladim resolves to /repo, and the schemas.
cd "$(dirname "$0")" || exit 1
/venv/bin/python - <<'PY' || exit 1
import ladim, numba, netCDF4, pandas, yaml, tomli, pathlib, sys
assert str(pathlib.Path(ladim.__file__).resolve()).startswith("/repo"), ladim.__file__
print("ladim from", ladim.__file__)
PY
python3-vt - <<'PY' || exit 1
import json, jsonschema
m = json.load(open("/verif/MANIFEST.json"))
jsonschema.validate(m, json.load(open("/root/.vp/MANIFEST.schema.json")))
print("MANIFEST ok:", len(m["checks"]), "checks")
PY
mkdir -p evidence replays
