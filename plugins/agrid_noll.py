"""An analytic grid WITHOUT geographic mapping: derived from BaseGrid, delegates to plugins/agrid.py, defines neither ll2xy nor xy2ll."""

import importlib.util
from pathlib import Path

from ladim.grid import BaseGrid

_spec = importlib.util.spec_from_file_location("verif_agrid_base", Path(__file__).with_name("agrid.py"))
_agrid = importlib.util.module_from_spec(_spec)
_spec.loader.exec_module(_agrid)


class Grid(BaseGrid):
    def __init__(self, modules=None, **kwargs):
        self.modules = modules
        g = _agrid.Grid(modules=modules, **kwargs)
        self._g = g
        self.imax, self.jmax = g.imax, g.jmax
        self.xmin, self.xmax, self.ymin, self.ymax = g.xmin, g.xmax, g.ymin, g.ymax

    def metric(self, X, Y):
        return self._g.metric(X, Y)

    def depth(self, X, Y):
        return self._g.depth(X, Y)

    def ingrid(self, X, Y):
        return self._g.ingrid(X, Y)

    def atsea(self, X, Y):
        return self._g.atsea(X, Y)
