"""Scripted, recording IBM plug-in for the verification harness."""

import json

import numpy as np

# Module-level state, as user plug-ins have it (a seeded generator, a counter): ladim executes a plug-in file given by path
# afresh for every Model, so every run must see it start from scratch.
_UPDATES = [0]


class IBM:
    def __init__(self, modules, kills=None, age=False, logfile=None, marker="sibm", agelimit=None, kill_tags=None, touchfile=None, dose=False, settle_age=None, age_rate=1.0, module_state=False, settle_tags=None, **kw):
        self.modules = modules
        self.kills = {int(k): list(v) for k, v in (kills or {}).items()}
        self.kill_tags = {int(k): list(v) for k, v in (kill_tags or {}).items()}
        self.age, self.agelimit = age, agelimit
        self.logfile, self.marker = logfile, marker
        self.log = []
        self.dt = modules["time"].dt / np.timedelta64(1, "s")
        self.closed = 0
        self.touchfile = touchfile
        self.dose, self.settle_age = dose, settle_age
        self.age_rate = age_rate  # 0 is a legal value (the age does not advance) and differs from the default
        self.module_state = module_state
        self.settle_tags = {int(k): list(v) for k, v in (settle_tags or {}).items()}

    def update(self):
        if self.touchfile:
            with open(self.touchfile, "a") as f:
                f.write("update\n")
        st = self.modules["state"]
        step = self.modules["time"].step
        self.log.append(dict(step=step, pid=st.pid.tolist(), alive=st.alive.tolist(), X=st.X.tolist(), Y=st.Y.tolist(), Z=st.Z.tolist()))
        if self.dose:  # a quantity that depends on where the particle is AFTER the move
            st["dose"] = st["dose"] + st.X * self.dt
        _UPDATES[0] += 1
        if self.age:
            st["age"] += self.dt * self.age_rate
            if self.module_state:  # the age carries the number of IBM updates since the plug-in file was loaded (0.5 s each)
                st["age"] += 0.5 * _UPDATES[0]
            if self.settle_age is not None:  # settled particles stay alive but are not moved any more
                st["active"] = st.active & (st.age < self.settle_age)
            if self.agelimit is not None:
                st["alive"] = st.alive & (st.age < self.agelimit)
        dead = self.kills.get(step, [])
        if dead:
            st["alive"] = st.alive & ~np.isin(st.pid, dead)
        tags = self.kill_tags.get(step, [])
        if tags:
            st["alive"] = st.alive & ~np.isin(st["tag"], tags)
        tags = self.settle_tags.get(step, [])
        if tags:  # the particles with these tags settle: alive, but not moved any more
            st["active"] = st.active & ~np.isin(st["tag"], tags)

    def close(self):
        self.closed += 1
        if self.logfile:
            with open(self.logfile, "w") as f:
                json.dump(dict(marker=self.marker, closed=self.closed, log=self.log), f)
