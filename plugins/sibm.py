"""Scripted, recording IBM plug-in for the verification harness."""

import json

import numpy as np


class IBM:
    def __init__(self, modules, kills=None, age=False, logfile=None, marker="sibm", agelimit=None, kill_tags=None, touchfile=None, dose=False, settle_age=None, age_rate=1.0, **kw):
        self.modules = modules
        self.kills = {int(k): list(v) for k, v in (kills or {}).items()}
        self.kill_tags = {int(k): list(v) for k, v in (kill_tags or {}).items()}
        self.age, self.agelimit = age, agelimit
        self.logfile, self.marker = logfile, marker
        self.log = []
        self.dt = modules["time"].dt / np.timedelta64(1, "s")
        self.closed = 0
        self.touchfile = touchfile
        self.dose, self.settle_age = dose, settle_age
        self.age_rate = age_rate  # 0 is a legal value (the age does not advance) and differs from the default

    def update(self):
        if self.touchfile:
            with open(self.touchfile, "a") as f:
                f.write("update\n")
        st = self.modules["state"]
        step = self.modules["time"].step
        self.log.append(dict(step=step, pid=st.pid.tolist(), alive=st.alive.tolist(), X=st.X.tolist(), Y=st.Y.tolist(), Z=st.Z.tolist()))
        if self.dose:  # a quantity that depends on where the particle is AFTER the move
            st["dose"] = st["dose"] + st.X * self.dt
        if self.age:
            st["age"] += self.dt * self.age_rate
            if self.settle_age is not None:  # settled particles stay alive but are not moved any more
                st["active"] = st.active & (st.age < self.settle_age)
            if self.agelimit is not None:
                st["alive"] = st.alive & (st.age < self.agelimit)
        dead = self.kills.get(step, [])
        if dead:
            st["alive"] = st.alive & ~np.isin(st.pid, dead)
        tags = self.kill_tags.get(step, [])
        if tags:
            st["alive"] = st.alive & ~np.isin(st["tag"], tags)

    def close(self):
        self.closed += 1
        if self.logfile:
            with open(self.logfile, "w") as f:
                json.dump(dict(marker=self.marker, closed=self.closed, log=self.log), f)
