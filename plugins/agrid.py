"""Analytic grid plug-in for the verification harness (loaded by path through ladim's plug-in mechanism)."""

import numpy as np
from ladim.grid import BaseGrid


class Grid(BaseGrid):
    def __init__(self, modules=None, filename=None, imax=20, jmax=15, dx=100.0, dy=None, h=50.0,
                 metric="uniform", land=None, hmode="flat", lon0=5.0, lat0=60.0, dlon=0.01, dlat=0.005, **kw):
        self.modules = modules
        self.imax, self.jmax = imax, jmax
        self.xmin, self.xmax, self.ymin, self.ymax = 0.0, imax - 1.0, 0.0, jmax - 1.0
        self.dx0, self.dy0 = float(dx), float(dx if dy is None else dy)
        self.metric_mode, self.hmode, self.h0 = metric, hmode, float(h)
        self.M = np.ones((jmax, imax), int)
        for i, j in land or []:
            self.M[j, i] = 0
        self.lon0, self.lat0, self.dlon, self.dlat = lon0, lat0, dlon, dlat
        jj, ii = np.meshgrid(np.arange(jmax), np.arange(imax), indexing="ij")
        if metric == "cellwise":
            self.DX = self.dx0 * (1.0 + 0.125 * ((ii + 2 * jj) % 3))
            self.DY = self.dy0 * (1.0 + 0.25 * ((2 * ii + jj) % 2))
        elif metric == "uniform-int":  # a spacing configured as a whole number and kept that way: metric() returns integer arrays
            self.DX = np.full((jmax, imax), int(self.dx0))
            self.DY = np.full((jmax, imax), int(self.dy0))
        else:
            self.DX = np.full((jmax, imax), self.dx0)
            self.DY = np.full((jmax, imax), self.dy0)
        if hmode == "cellwise":
            self.H = self.h0 * (1.0 + 0.5 * ((ii + jj) % 2))
        elif hmode == "step":  # deeper to the east of column 5
            self.H = np.where(ii >= 5, 2.0 * self.h0, self.h0)
        else:
            self.H = np.full((jmax, imax), self.h0)

    def _ij(self, X, Y):
        return np.asarray(X).round().astype(int), np.asarray(Y).round().astype(int)

    def metric(self, X, Y):
        I, J = self._ij(X, Y)
        return self.DX[J, I], self.DY[J, I]

    def depth(self, X, Y):
        I, J = self._ij(X, Y)
        return self.H[J, I]

    def ingrid(self, X, Y):
        return (self.xmin + 0.5 < X) & (X < self.xmax - 0.5) & (self.ymin + 0.5 < Y) & (Y < self.ymax - 0.5)

    def atsea(self, X, Y):
        I, J = self._ij(X, Y)
        return self.M[J, I] > 0

    def ll2xy(self, lon, lat):
        return (np.asarray(lon) - self.lon0) / self.dlon, (np.asarray(lat) - self.lat0) / self.dlat

    def xy2ll(self, X, Y):
        return self.lon0 + self.dlon * np.asarray(X), self.lat0 + self.dlat * np.asarray(Y)
