"""Analytic, recording forcing plug-in for the verification harness."""

import numpy as np
from ladim.forcing import BaseForce


def field(name, p, x, y, t):
    """Velocity (m/s) of the named analytic field at grid position (x, y), time t seconds.
    Lengths are scaled by p['L'] (metres per grid unit) so that rates are per second in grid units."""
    L = p.get("L", 1.0)
    xc, yc = p.get("xc", 0.0), p.get("yc", 0.0)
    a, b, c = p.get("a", 0.0), p.get("b", 0.0), p.get("c", 0.0)
    z = np.zeros_like(np.asarray(x, float))
    if name == "still":
        return z, z
    if name == "const":
        return z + a * L, z + b * L
    if name == "shear":
        return a * (y - yc) * L, z + b * L
    if name == "rot":
        return -a * (y - yc) * L, a * (x - xc) * L
    if name == "saddle":
        return a * (x - xc) * L, -a * (y - yc) * L
    if name == "conv":
        return -a * (x - xc) * L, -a * (y - yc) * L
    if name == "tlin":
        return z + (a + b * t) * L, z + (c + 2 * b * t) * L
    if name == "ramp":  # at rest at t = 0, spun up linearly
        return z + a * t * L, z + b * t * L
    if name == "rotramp":
        w = a * (1.0 + b * t)
        return -w * (y - yc) * L, w * (x - xc) * L
    if name == "xt":
        return a * (x - xc) * t * L, z + b * L
    raise ValueError(name)


class Forcing(BaseForce):
    def __init__(self, modules, filename=None, field="still", params=None, w=0.0, record=True, **kw):
        self.modules = modules
        self.name, self.p = field, dict(params or {})
        self.w = w
        self.variables = dict(u=np.array([]), v=np.array([]), w=np.array([]))
        self.record = record
        self.queries = []  # (step, frac, X, Y, U, V) per velocity() call
        self.snapshots = []  # state right after forcing.update(): what a record due now must show
        self.dt = modules["time"].dt / np.timedelta64(1, "s")
        self.closed = 0

    def update(self):
        st = self.modules["state"]
        step = self.modules["time"].step
        u, v = field(self.name, self.p, st.X, st.Y, step * self.dt)
        self.variables["u"], self.variables["v"] = u, v
        self.variables["w"] = np.zeros(len(st)) + self.w
        if self.record:
            self.snapshots.append(dict(step=step, time=self.modules["time"].time,
                                       vars={k: np.array(a, copy=True) for k, a in st.variables.items()}, npid=st.npid))

    def velocity(self, X, Y, Z, fractional_step=0, method="bilinear"):
        step = self.modules["time"].step
        u, v = field(self.name, self.p, X, Y, (step + fractional_step) * self.dt)
        if self.record:
            self.queries.append((step, float(fractional_step), np.array(X, copy=True), np.array(Y, copy=True), u.copy(), v.copy()))
        return u, v

    def close(self):
        self.closed += 1
