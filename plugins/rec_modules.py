"""Recording wrappers for all eight ladim modules (verification harness). Each class is a thin subclass of the
real one that logs (module, method, step, model time, particles) to a process-wide event list and delegates."""

import sys
import types

import numpy as np

import ladim.ibm
import ladim.out_netcdf
import ladim.release
import ladim.ROMS
import ladim.state
import ladim.timekeeper
import ladim.tracker

_reg = sys.modules.setdefault("verif_reclog", types.ModuleType("verif_reclog"))
if not hasattr(_reg, "events"):
    _reg.events = []
FILE_MARKER = "rec_modules"


def log(mod, meth, modules, **extra):
    ev = dict(mod=mod, meth=meth)
    try:
        t = modules["time"]
        ev["step"], ev["time"] = int(t.step), str(t.time)
        st = modules["state"]
        ev["pid"], ev["X"], ev["Y"], ev["alive"] = st.pid.tolist(), st.X.tolist(), st.Y.tolist(), st.alive.tolist()
        if "temp" in st.variables:
            ev["temp"] = np.asarray(st.variables["temp"]).tolist()
    except Exception as e:  # modules not complete yet (during construction)
        ev["partial"] = repr(e)
    ev.update(extra)
    _reg.events.append(ev)


class State(ladim.state.State):
    __slots__ = ()


class TimeKeeper(ladim.timekeeper.TimeKeeper):
    def update(self):
        super().update()
        _reg.events.append(dict(mod="time", meth="update", step=int(self.step), time=str(self.time)))


class Grid(ladim.ROMS.Grid):
    def __init__(self, modules=None, marker=FILE_MARKER, **kw):
        super().__init__(**kw)
        self._marker = marker
        _reg.events.append(dict(mod="grid", meth="init", marker=marker))

    def close(self):
        _reg.events.append(dict(mod="grid", meth="close", marker=self._marker))


class Forcing(ladim.ROMS.Forcing):
    def __init__(self, modules, marker=FILE_MARKER, **kw):
        super().__init__(modules, **kw)
        self._marker = marker
        _reg.events.append(dict(mod="forcing", meth="init", marker=marker))

    def update(self):
        log("forcing", "update", self.modules, marker=self._marker)
        super().update()
        log("forcing", "updated", self.modules)

    def close(self):
        _reg.events.append(dict(mod="forcing", meth="close", marker=self._marker))
        super().close()


class ParticleReleaser(ladim.release.ParticleReleaser):
    def update(self):
        log("release", "update", self.modules)
        super().update()

    def close(self):
        _reg.events.append(dict(mod="release", meth="close"))


class Tracker(ladim.tracker.Tracker):
    def update(self):
        log("tracker", "update", self.modules)
        super().update()
        log("tracker", "updated", self.modules)

    def close(self):
        _reg.events.append(dict(mod="tracker", meth="close"))


class IBM(ladim.ibm.IBM):
    def __init__(self, modules, marker=FILE_MARKER, kills=None, **kw):
        super().__init__(modules, **kw)
        self._marker = marker
        self.kills = {int(k): list(v) for k, v in (kills or {}).items()}
        _reg.events.append(dict(mod="ibm", meth="init", marker=marker))

    def update(self):
        log("ibm", "update", self.modules, marker=self._marker)
        st = self.modules["state"]
        dead = self.kills.get(int(self.modules["time"].step), [])
        if dead:
            st["alive"] = st.alive & ~np.isin(st.pid, dead)

    def close(self):
        _reg.events.append(dict(mod="ibm", meth="close", marker=self._marker))


class Output(ladim.out_netcdf.Output):
    def __init__(self, modules, marker=FILE_MARKER, **kw):
        super().__init__(modules, **kw)
        self._marker = marker
        _reg.events.append(dict(mod="output", meth="init", marker=marker))

    def update(self):
        log("output", "update", self.modules, marker=self._marker)
        super().update()

    def write(self, state):
        log("output", "write", self.modules)
        super().write(state)

    def close(self):
        _reg.events.append(dict(mod="output", meth="close", marker=self._marker))
        super().close()
