"""Synthetic ROMS worlds: grid + forcing NetCDF files from an abstract spec, release files,
configuration writers, and a reader for ladim output files written from doc/source/output.rst.
"""

from __future__ import annotations

from pathlib import Path

import numpy as np
import yaml
from netCDF4 import Dataset

EPOCH = np.datetime64("1970-01-01T00:00:00", "s")


def iso(sec: int) -> str:
    return str(EPOCH + np.timedelta64(int(sec), "s"))


def tosec(t) -> int:
    return int((np.datetime64(t, "s") - EPOCH) / np.timedelta64(1, "s"))


# ----------------------------------------------------------------------------- vertical
def ref_stretch(N, theta_s, theta_b, stagger="rho", Vstretching=1):
    """Reference ROMS stretching curves (from the ROMS documentation, scalar loop on purpose)."""
    import math

    if stagger == "rho":
        S = [-1.0 + (k + 0.5) / N for k in range(N)]
    else:
        S = [-1.0 + k / N for k in range(N + 1)]
    C = []
    for s in S:
        if Vstretching == 1:
            c = (1 - theta_b) * math.sinh(theta_s * s) / math.sinh(theta_s) + theta_b * (
                math.tanh(theta_s * (s + 0.5)) / (2 * math.tanh(0.5 * theta_s)) - 0.5
            )
        elif Vstretching == 2:
            # (1 - cosh(a s)) / (cosh(a) - 1) written with the half-angle identity cosh(x) - 1 = 2 sinh(x/2)**2: no cancellation for small a
            csur = -((math.sinh(0.5 * theta_s * s) / math.sinh(0.5 * theta_s)) ** 2)
            cbot = math.sinh(theta_b * (s + 1)) / math.sinh(theta_b) - 1
            mu = (s + 1) * (1 + (1 - (s + 1)))
            c = mu * csur + (1 - mu) * cbot
        elif Vstretching == 4:
            c = -((math.sinh(0.5 * theta_s * s) / math.sinh(0.5 * theta_s)) ** 2)
            c = (math.exp(theta_b * c) - 1) / (1 - math.exp(-theta_b))
        else:
            raise ValueError
        C.append(c)
    return np.array(S), np.array(C)


def ref_zlevels(h, hc, S, C, Vtransform=1):
    """Reference level depths z[k, ...] (zeta = 0)."""
    h = np.asarray(h, float)
    S = np.asarray(S)[(...,) + (None,) * h.ndim]
    C = np.asarray(C)[(...,) + (None,) * h.ndim]
    if Vtransform == 1:
        return hc * (S - C) + C * h
    return h * (hc * S + h * C) / (hc + h)


# ----------------------------------------------------------------------------- world
class World:
    """Abstract description of a ROMS set-up; `write` renders grid/forcing files."""

    def __init__(self, imax=8, jmax=7, N=3, h=10.0, mask=None, dx=100.0, dy=None,
                 hc=0.0, theta_s=1e-4, theta_b=0.0, Vtransform=1, Vstretching=1, lonlat=None):
        self.imax, self.jmax, self.N = imax, jmax, N
        self.h = np.broadcast_to(np.asarray(h, float), (jmax, imax)).copy()
        self.mask = np.ones((jmax, imax)) if mask is None else np.asarray(mask, float)
        self.dx = np.broadcast_to(np.asarray(dx, float), (jmax, imax)).copy()
        self.dy = self.dx.copy() if dy is None else np.broadcast_to(np.asarray(dy, float), (jmax, imax)).copy()
        self.hc, self.Vtransform = float(hc), Vtransform
        self.S_r, self.Cs_r = ref_stretch(N, theta_s, theta_b, "rho", Vstretching)
        self.S_w, self.Cs_w = ref_stretch(N, theta_s, theta_b, "w", Vstretching)
        if lonlat is None:
            jj, ii = np.meshgrid(np.arange(jmax), np.arange(imax), indexing="ij")
            self.lon, self.lat = 5.0 + 0.01 * ii + 0.001 * jj, 60.0 + 0.005 * jj - 0.0005 * ii
        else:
            self.lon, self.lat = lonlat
        self.z_r = ref_zlevels(self.h, self.hc, self.S_r, self.Cs_r, Vtransform)  # [N, jmax, imax]

    def write_grid_vars(self, nc, with_dims=True):
        if with_dims:
            nc.createDimension("xi_rho", self.imax)
            nc.createDimension("eta_rho", self.jmax)
            nc.createDimension("xi_u", self.imax - 1)
            nc.createDimension("eta_u", self.jmax)
            nc.createDimension("xi_v", self.imax)
            nc.createDimension("eta_v", self.jmax - 1)
            nc.createDimension("s_rho", self.N)
            nc.createDimension("s_w", self.N + 1)
        for name, arr in (("h", self.h), ("mask_rho", self.mask), ("pm", 1.0 / self.dx), ("pn", 1.0 / self.dy),
                          ("lon_rho", self.lon), ("lat_rho", self.lat), ("angle", np.zeros_like(self.h))):
            v = nc.createVariable(name, "f8", ("eta_rho", "xi_rho"))
            v[:] = arr
        nc.createVariable("hc", "f8", ())[...] = self.hc
        nc.createVariable("Cs_r", "f8", ("s_rho",))[:] = self.Cs_r
        nc.createVariable("Cs_w", "f8", ("s_w",))[:] = self.Cs_w
        nc.createVariable("Vtransform", "i4", ())[...] = self.Vtransform

    def write_file(self, path, frames, storage="f8", time_units="seconds since 1970-01-01 00:00:00",
                   scale=None, grid_vars=True, time_scale=None):
        """frames: list of dict(t=<sec since epoch>, u=[N,jmax,imax-1], v=[N,jmax-1,imax], <extra>=[N,jmax,imax])."""
        path = Path(path)
        with Dataset(path, "w", format="NETCDF4") as nc:
            nc.createDimension("ocean_time", None)
            self.write_grid_vars(nc) if grid_vars else self.write_grid_vars_dims_only(nc)
            if time_scale:  # the time coordinate itself stored packed (integer * scale_factor), as compressing tools do
                tv = nc.createVariable("ocean_time", "i4", ("ocean_time",))
                tv.scale_factor = float(time_scale)
                tv.set_auto_maskandscale(False)
            else:
                tv = nc.createVariable("ocean_time", "f8", ("ocean_time",))
            tv.units = time_units
            div = dict(seconds=1.0, hours=3600.0, days=86400.0, minutes=60.0)[time_units.split()[0]]
            base = tosec(np.datetime64(time_units.split("since")[1].strip().replace(" ", "T")))
            extras = [k for k in (frames[0] if frames else {}) if k not in ("t", "u", "v")]
            dims = dict(u=("ocean_time", "s_rho", "eta_u", "xi_u"), v=("ocean_time", "s_rho", "eta_v", "xi_v"))
            vars_ = {}
            # storage per variable: "i2" = all packed; "i2-bare" = packed, add_offset attribute left out where it is 0 (scale_factor only);
            # "u-packed" / "v-packed" = only that velocity component (and the scalars) packed, the other one stored as float
            # "f4-scaled" = single-precision floats that carry a scale_factor all the same (values stored in other units, e.g. cm/s)
            per = {name: ("i2" if storage in ("i2", "i2-bare") else "f4s" if storage == "f4-scaled" else storage) for name in ["u", "v", *extras]}
            if storage in ("u-packed", "v-packed"):
                per = {name: "i2" for name in per}
                per["v" if storage == "u-packed" else "u"] = "f8"
            for name in ["u", "v", *extras]:
                d = dims.get(name, ("ocean_time", "s_rho", "eta_rho", "xi_rho"))
                if per[name] == "i2":
                    vv = nc.createVariable(name, "i2", d)
                    sf, off = (scale or {}).get(name, (2.0 ** -10, 0.0))
                    vv.scale_factor = np.float32(sf)
                    if not (storage == "i2-bare" and off == 0.0):
                        vv.add_offset = np.float32(off)
                elif per[name] == "f4s":
                    vv = nc.createVariable(name, "f4", d)
                    sf, off = (scale or {}).get(name, (2.0 ** -10, 0.0))
                    vv.scale_factor = np.float32(sf)
                    if off:
                        vv.add_offset = np.float32(off)
                else:
                    vv = nc.createVariable(name, per[name], d)
                vv.set_auto_maskandscale(False)
                vars_[name] = vv
            for k, fr in enumerate(frames):
                tv[k] = (fr["t"] - base) / div if not time_scale else int(round((fr["t"] - base) / div / time_scale))
                for name in ["u", "v", *extras]:
                    a = np.asarray(fr[name], float)
                    if per[name] == "i2":
                        sf, off = (scale or {}).get(name, (2.0 ** -10, 0.0))
                        q = (a - off) / sf
                        if not np.allclose(q, np.round(q)):
                            raise ValueError(f"field {name} not representable in packed storage")
                        vars_[name][k] = np.round(q).astype("i2")
                    elif per[name] == "f4s":
                        sf, off = (scale or {}).get(name, (2.0 ** -10, 0.0))
                        vars_[name][k] = (a - off) / sf  # exact for the dyadic data of the lattices; NaN stays NaN
                    else:
                        vars_[name][k] = a
        return path

    def write_grid_vars_dims_only(self, nc):
        for n, s in (("xi_rho", self.imax), ("eta_rho", self.jmax), ("xi_u", self.imax - 1), ("eta_u", self.jmax),
                     ("xi_v", self.imax), ("eta_v", self.jmax - 1), ("s_rho", self.N), ("s_w", self.N + 1)):
            nc.createDimension(n, s)

    def zeros(self):
        return dict(u=np.zeros((self.N, self.jmax, self.imax - 1)), v=np.zeros((self.N, self.jmax - 1, self.imax)))

    def uniform(self, u, v):
        z = self.zeros()
        z["u"] += u
        z["v"] += v
        return z

    def linear_uv(self, au, bu, cu, av, bv, cv):
        """u = au + bu*x + cu*y at u-points (x=i+0.5, y=j); v likewise at v-points (x=i, y=j+0.5)."""
        z = self.zeros()
        ju, iu = np.meshgrid(np.arange(self.jmax), np.arange(self.imax - 1) + 0.5, indexing="ij")
        jv, iv = np.meshgrid(np.arange(self.jmax - 1) + 0.5, np.arange(self.imax), indexing="ij")
        z["u"] += (au + bu * iu + cu * ju)[None]
        z["v"] += (av + bv * iv + cv * jv)[None]
        return z


# ----------------------------------------------------------------------------- release/config
def write_release(path, rows, header=True, columns=None):
    """rows: list of dicts; the column order is `columns` (default: keys of first row)."""
    cols = columns or list(rows[0].keys())
    lines = []
    if header:
        lines.append(" ".join(cols))
    for r in rows:
        lines.append(" ".join(str(r[c]) for c in cols))
    Path(path).write_text("\n".join(lines) + "\n")
    return cols


def ovar(dtype="f8", **attrs):
    return dict(encoding=dict(datatype=dtype), attributes=dict(attrs))


def base_config(start, stop, dt, grid, forcing, release, output, tracker=None, state=None, ibm=None,
                reference=None, reversed_=False, warm_start=None):
    conf = dict(
        version=2,
        time=dict(start=iso(start) if not isinstance(start, str) else start,
                  stop=iso(stop) if not isinstance(stop, str) else stop, dt=dt),
        grid=grid, forcing=forcing, release=release, output=output,
        tracker=tracker or dict(advection="EF"),
    )
    if reversed_:
        conf["time"]["time_reversal"] = True
    if reference is not None:
        conf["time"]["reference"] = iso(reference) if not isinstance(reference, str) else reference
    if state is not None:
        conf["state"] = state
    if ibm is not None:
        conf["ibm"] = ibm
    if warm_start is not None:
        conf["warm_start"] = warm_start
    return conf


def clean(x):
    if isinstance(x, dict):
        return {k: clean(v) for k, v in x.items()}
    if isinstance(x, (list, tuple)):
        return [clean(v) for v in x]
    if isinstance(x, Path):
        return str(x)
    if isinstance(x, np.generic):
        return x.item()
    return x


def write_yaml(path, conf):
    Path(path).write_text(yaml.safe_dump(clean(conf), sort_keys=False))
    return path


# ----------------------------------------------------------------------------- output reader
_SENT_F, _SENT_I = -7.123456789e-77, -1234567


class _SentinelNumpy:
    """numpy stand-in for the netCDF4 extension module while a file is read: read buffers start out holding a sentinel, so an
    element that the netCDF library never sets (it pads too little when a slab exceeds a variable's stored extent along two
    unlimited dimensions) is recognised deterministically instead of showing up as whatever the heap held."""

    def __init__(self, real):
        self._real = real

    def __getattr__(self, k):
        return getattr(self._real, k)

    def empty(self, shape, dtype=float, **kw):
        a = self._real.empty(shape, dtype, **kw)
        if a.dtype.kind == "f":
            a.fill(_SENT_F)
        elif a.dtype.kind == "i" and a.dtype.itemsize >= 4:
            a.fill(_SENT_I)
        return a


def whole_array(ncvar):
    """`ncvar[:]` (one slab read, the way a user or xarray reads a variable) plus the boolean map of elements left unset."""
    import netCDF4._netCDF4 as ext

    real = ext.numpy
    ext.numpy = _SentinelNumpy(real)
    try:
        a = np.asarray(ncvar[:])
    finally:
        ext.numpy = real
    if a.dtype.kind == "f":
        unset = a == _SENT_F
    elif a.dtype.kind == "i" and a.dtype.itemsize >= 4:
        unset = a == _SENT_I
    else:
        unset = np.zeros(a.shape, bool)
    return a, unset


def read_output(paths, layout="sparse"):
    """Read one or several ladim output files (in the given order) following the format
    documentation.  Returns dict(records=[dict(time=<abs sec>, file=<name>, vars={name: array})],
    files=[dict(name, particle={name: array}, n_instance, sum_count, units)])."""
    recs, files = [], []
    for p in paths:
        with Dataset(p) as nc:
            nc.set_auto_mask(False)
            tv = nc.variables["time"]
            units = tv.units
            assert units.startswith("seconds since "), units
            ref = tosec(np.datetime64(units.split("since")[1].strip().replace(" ", "T")))
            times = tv[:]
            inst_dim = "particle_instance" if layout == "sparse" else None
            ivars, pvars = [], []
            for name, v in nc.variables.items():
                if name in ("time", "particle_count"):
                    continue
                if layout == "sparse" and v.dimensions == ("particle_instance",):
                    ivars.append(name)
                elif layout == "dense" and v.dimensions == ("time", "particle"):
                    ivars.append(name)
                elif v.dimensions == ("particle",):
                    pvars.append(name)
            finfo = dict(name=Path(p).name, units=units, ntime=len(times),
                         particle={n: nc.variables[n][:] for n in pvars},
                         particle_units={n: getattr(nc.variables[n], "units", None) for n in pvars},
                         attrs={a: getattr(nc, a) for a in nc.ncattrs()})
            if layout == "sparse":
                count = nc.variables["particle_count"][:]
                finfo["n_instance"] = len(nc.dimensions["particle_instance"])
                finfo["sum_count"] = int(np.sum(count))
                for n in range(len(times)):
                    start = int(np.sum(count[:n]))
                    c = int(count[n])
                    recs.append(dict(time=ref + float(times[n]), file=Path(p).name, count=c,
                                     vars={v: nc.variables[v][start:start + c] for v in ivars}))
            else:
                for n in range(len(times)):
                    recs.append(dict(time=ref + float(times[n]), file=Path(p).name,
                                     vars={v: nc.variables[v][n, :] for v in ivars}))
                # the same variables read as ONE array each must show the same content as the row-by-row reading
                slab = []
                for v in ivars:
                    a, unset = whole_array(nc.variables[v])
                    for n, j in zip(*np.nonzero(unset)):
                        slab.append((v, int(n), int(j), "unset"))
                    for n in range(min(len(times), a.shape[0])):
                        row = np.asarray(recs[len(recs) - len(times) + n]["vars"][v])
                        m = min(len(row), a.shape[1])
                        for j in np.nonzero(~unset[n, :m] & ~((a[n, :m] == row[:m]) | ((a[n, :m] != a[n, :m]) & (row[:m] != row[:m]))))[0]:
                            slab.append((v, int(n), int(j), "differs"))
                finfo["slab_read_faults"] = slab
            files.append(finfo)
    return dict(records=recs, files=files)
