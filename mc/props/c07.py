"""C07 - every scheduled output time is written for any (steps, period, numrec).

Configuration lattice through the real main() (the loop bound lives there) with analytic
grid/forcing plug-ins. Oracle: integer arithmetic on the schedule, the documented file
numbering, and a split-vs-unsplit differential.
"""

from __future__ import annotations

import itertools
import math
import os

import numpy as np

from mc import drive, util, world

ID = "C07"
LEVEL = "model_checking"
RULE = (
    "every (Nsteps, period, numrec, layout, particle variables, direction, file-name prototype, duration exact or not) "
    "on the lattice, each a complete run of main(); non-trivial = at least 2 records scheduled and, when split, at least 2 files; "
    "lattice points are distinct by construction"
)
RULE += " Beyond the lattice (chosen scenarios, not enumerated): file-name prototypes whose counter has or gets five digits; runs in which everything is dead and nothing is left to release."
ASSUMPTIONS = ["output period a whole multiple of dt (the statement's validity condition)", "analytic grid/forcing plug-ins"]

S0 = world.tosec("2020-03-01T00:00:00")
DT = 60
PROTOS = ["out.nc", "out_07.nc", "a_42_007.nc", "exp10_01.nc", "drift_2000_000.nc", "r_7_77.nc", "long_9998.nc", "w_99.nc", "run_10000.nc"]  # the last two: the counter grows by a digit


def bounds(tier, seed):
    if tier == "quick":
        return dict(nsteps=list(range(1, 10)), periods=[1, 2, 3, 4], numrec=[0, 1, 2, 3], protos=PROTOS)
    return dict(nsteps=list(range(1, 14)), periods=[1, 2, 3, 4, 5, 7], numrec=[0, 1, 2, 3, 4, 7], protos=PROTOS)


def cases(tier, seed):
    b = bounds(tier, seed)
    out = []
    for n, p, layout, pv, rev, extra in itertools.product(b["nsteps"], b["periods"], ["sparse", "dense"], [False, True], [False, True], [0, 25]):
        # the file-name prototype only matters to the name generator: all prototypes in one slice of the lattice, one (seed-chosen) elsewhere
        protos = b["protos"] if (layout == "sparse" and not pv and extra == 0 and (tier == "thorough" or not rev)) else [PROTOS[(seed + n) % len(PROTOS)]]
        out.append(dict(mode="group", nsteps=n, period=p, layout=layout, pvars=pv, rev=rev, extra=extra, numrecs=b["numrec"], protos=protos, late=False))
        if not rev and n >= 3 and extra == 0:
            # first release two steps after the start: the first scheduled records hold no particle at all
            out.append(dict(mode="group", nsteps=n, period=p, layout=layout, pvars=pv, rev=rev, extra=extra, numrecs=b["numrec"][:3], protos=protos[:1], late=True))
        if n >= 4 and extra == 0 and not pv:
            # every particle is dead after the second step and nothing more is released: the remaining scheduled records are still due (empty)
            out.append(dict(mode="group", nsteps=n, period=p, layout=layout, pvars=pv, rev=rev, extra=extra, numrecs=b["numrec"][:3], protos=protos[:1], late=False, dieout=True))
    return out


def expected_names(proto, nfiles, numrec):
    if not numrec:
        return [proto]
    stem, ext = os.path.splitext(proto)
    parts = stem.rsplit("_", 1)
    if len(parts) == 2 and parts[1].isdigit():
        base, first, width = parts[0], int(parts[1]), len(parts[1])
    else:
        base, first, width = stem, 0, 3
    return [f"{base}_{str(first + k).zfill(width)}{ext}" for k in range(nfiles)]


def one_run(case, numrec, proto):
    """Run main() once; return (violations, records) where records = [(abs time, sorted values)]."""
    n, P, rev = case["nsteps"], case["period"], case["rev"]
    sgn = -1 if rev else 1
    d = util.scratch("c07")
    stop = S0 + sgn * (n * DT + case["extra"])
    first = 2 if case.get("late") else 0
    rows = [dict(release_time=world.iso(S0 + first * DT), X=3.0, Y=4.0, Z=1.0, weight=2.5), dict(release_time=world.iso(S0 + first * DT), X=5.0, Y=6.0, Z=1.0, weight=3.5)]
    third = not rev and n > 3 and not case.get("dieout")
    if third:
        rows.append(dict(release_time=world.iso(S0 + 3 * DT), X=7.0, Y=5.0, Z=2.0, weight=4.5))
    if case.get("dieout"):
        kw_ibm = dict(ibm=dict(module=drive.plug("sibm.py"), kills={"1": [0, 1]}))
    else:
        kw_ibm = {}
    outvars = ("pid", "X", "Y")
    kw = {}
    if case["pvars"]:
        kw["state"] = dict(particle_variables=dict(weight="float"))
        kw["particle_out"] = dict(weight=world.ovar("f8"))
    else:
        for r in rows:
            r.pop("weight")
    conf = drive.analytic_conf(d, S0, stop, DT, rows, outvars=outvars, period=P * DT, numrec=numrec, layout=case["layout"],
                               field="const", params=dict(a=0.25 / DT, b=0.125 / DT, L=100.0), reversed_=rev, filename=proto, **kw, **kw_ibm)
    if not numrec and (n + P) % 2 == 0:
        conf["output"]["numrec"] = 0  # "no splitting" written out (the documented default value) instead of leaving the key out
    sub = dict(case, mode="single", numrec=numrec, proto=proto)
    tag = f"N={n} P={P} numrec={numrec} {case['layout']} pvars={case['pvars']} rev={rev} extra={case['extra']} proto={proto} late={case.get('late', False)}{' dieout' if case.get('dieout') else ''}"
    try:
        drive.run_main(conf, d)
    except drive.RunFailed as e:
        sig = f"crash:{e.kind}"
        if case["extra"] == 0 and n % P == 0:
            sig += ":exact-multiple"
        elif (n * DT + case["extra"]) % (P * DT) != 0:
            sig += ":duration-not-multiple-of-period"
        return [util.viol(sig, f"{tag}: run ended abnormally: {e}", sub)], None
    due = [s for s in range(n) if s % P == 0]
    K = len(due)
    nfiles = math.ceil(K / numrec) if numrec else 1
    names = expected_names(proto, nfiles, numrec)
    present = sorted(f for f in os.listdir(d) if f.endswith(".nc"))
    if present != sorted(names):
        return [util.viol("files:names", f"{tag}: files {present} expected {names}", sub)], None
    try:
        out = world.read_output([d / f for f in names], case["layout"])
    except Exception as e:
        return [util.viol("files:unreadable", f"{tag}: {e!r}", sub)], None
    v = []
    per_file = [f["ntime"] for f in out["files"]]
    exp_per_file = [min(numrec, K - j * numrec) for j in range(nfiles)] if numrec else [K]
    if per_file != exp_per_file:
        v.append(util.viol("files:record-counts", f"{tag}: records per file {per_file} expected {exp_per_file}", sub))
    times = [r["time"] for r in out["records"]]
    exp_times = [float(S0 + sgn * s * DT) for s in due]
    if times != exp_times:
        v.append(util.viol("records:times", f"{tag}: times-S0 {[t - S0 for t in times]} expected {[t - S0 for t in exp_times]}", sub))
    released = lambda s: (2 if s >= first else 0) + (1 if (third and s >= 3) else 0)  # noqa: E731
    living = released if not case.get("dieout") else (lambda s: 2 if s <= 1 else 0)  # the IBM kills both particles in the step that starts at step 1
    if case["layout"] == "sparse":
        for f in out["files"]:
            if f["n_instance"] != f["sum_count"]:
                v.append(util.viol("records:counts", f"{tag}: {f['name']} sum(count)={f['sum_count']} instance dim={f['n_instance']}", sub))
        for r, s in zip(out["records"], due):
            if r["count"] != living(s):
                v.append(util.viol("records:counts", f"{tag}: record at step {s} has {r['count']} particles expected {living(s)}", sub))
                break
    if case["pvars"]:
        allw = [2.5, 3.5, 4.5]
        last = -1
        for j, f in enumerate(out["files"]):
            last += exp_per_file[j]
            if last < len(due):
                exp = allw[: released(due[last])]
                got = f["particle"]["weight"].tolist()
                if got != exp:
                    v.append(util.viol("files:particle-variables", f"{tag}: {f['name']} weight={got} expected {exp}", sub))
                    break
    recs = []
    for r in out["records"]:
        recs.append((r["time"], {k: norm(a, case["layout"]) for k, a in r["vars"].items()}))
    return v[:3], recs


def norm(a, layout):
    """Dense rows: fill values (before release / after death) become None; trailing ones are dropped
    because a split file's particle dimension only grows to the particles released so far."""
    x = np.asarray(a).tolist()
    if layout != "dense":
        return x
    x = [None if (isinstance(q, float) and (math.isnan(q) or abs(q) > 9e36)) else q for q in x]
    while x and x[-1] is None:
        x.pop()
    return x


def same(a, b):
    return all(x == y or (isinstance(x, float) and isinstance(y, float) and math.isnan(x) and math.isnan(y)) for x, y in zip(a, b)) and len(a) == len(b)


def run_group(case):
    viols, n, nt = [], 0, 0
    outcomes = set()
    base = None
    for numrec in case["numrecs"]:
        for proto in case["protos"] if numrec else ["out.nc"]:
            v, recs = one_run(case, numrec, proto)
            n += 1
            K = math.ceil(case["nsteps"] / case["period"])
            if K >= 2 and (not numrec or K > numrec):
                nt += 1
            outcomes.add((K, math.ceil(K / numrec) if numrec else 1))
            viols.extend(v)
            if recs is None:
                continue
            if numrec == 0:
                base = recs
            elif base is not None:
                ok = len(recs) == len(base) and all(
                    t1 == t2 and all(same(r1[k], r2[k]) for k in r1) for (t1, r1), (t2, r2) in zip(recs, base)
                )
                if not ok:
                    viols.append(util.viol("split-vs-unsplit", f"N={case['nsteps']} P={case['period']} numrec={numrec} {case['layout']} rev={case['rev']}: concatenated split files differ from the unsplit run", dict(case, mode="group", numrecs=[0, numrec], protos=[proto])))
        util.cleanup_scratch(keep_root=True)
    # one violation per signature per group is enough
    seen, uniq = set(), []
    for x in viols:
        if x["sig"] not in seen:
            seen.add(x["sig"])
            uniq.append(x)
    return util.result(evals=n, nontrivial=nt, viol=uniq, outcomes=[list(o) for o in outcomes], states=n, transitions=n * case["nsteps"],
                       sample=dict(nsteps=case["nsteps"], period=case["period"], numrecs=case["numrecs"], layout=case["layout"], rev=case["rev"], extra_seconds=case["extra"]))


def warmup():
    run_group(dict(mode="group", nsteps=2, period=1, layout="sparse", pvars=False, rev=False, extra=0, numrecs=[0], protos=["out.nc"]))


def run_case(case):
    if case["mode"] == "group":
        return run_group(case)
    if case["mode"] == "single":
        v, _ = one_run(case, case["numrec"], case["proto"])
        return util.result(viol=v, outcomes=[len(v)])
    raise util.HarnessError(case)
