"""C05 - particle identity through append / kill / compactify / assignment.

History search over the real ladim.state.State (and, in a reduced alphabet, the real sparse
Output.write + a documented-format reader).  Every operation sequence up to the bound is
executed; after every operation the State is compared with a boring reference model
(python lists).  Operation arguments are functions of the current state only, so the
canonical state determines all futures and (state, remaining depth) pairs can be pruned.
"""

from __future__ import annotations

import itertools

import numpy as np

from mc import util

ID = "C05"
LEVEL = "model_checking"
RULE = (
    "all operation sequences over the alphabet up to the depth bounds, executed on the real State: (rdfs) every sequence replayed from scratch on a fresh State, "
    "(dfs) deeper, incrementally with cloning and pruning on (canonical state, remaining depth); "
    "non-trivial = a visited state in which at least one particle is dead-or-removed AND at least "
    "one survives (identity can actually be confused); distinct = distinct canonical states"
)
RULE += " Beyond the lattice (chosen scenarios, not enumerated): crowd histories (120-1200 particles, one or two dead), also through Output.write."
ASSUMPTIONS = [
    "operation arguments are deterministic functions of the current State, so pruning on "
    "(canonical state, remaining depth) is sound",
    "dtype zoo limited to int/float/bool/datetime64[s]",
]

FULL = ["a1", "a2", "ab", "a0", "kf", "km", "kl", "ks", "c", "sx", "si", "pl", "pd", "al", "ix", "ad", "in", "a3", "rf"]
CORE = ["a1", "a2", "kf", "kl", "c"]
WRITE = ["a1", "a2", "kf", "kl", "c", "w"]
T0 = np.datetime64("2020-01-01T00:00:00", "s")
IVARS = ["pid", "X", "Y", "Z", "age", "tag", "alive", "active"]
PVARS = ["weight", "rt"]


def bounds(tier, seed):
    if tier == "quick":
        return dict(replay_full_depth=4, replay_core_depth=7, pruned_full_depth=5, pruned_core_depth=9, write_depth=4)
    return dict(replay_full_depth=5, replay_core_depth=9, pruned_full_depth=7, pruned_core_depth=11, write_depth=6)


def cases(tier, seed):
    b = bounds(tier, seed)
    out = []
    for alpha, name in ((FULL, "full"), (CORE, "core")):
        for pre in itertools.product(alpha, repeat=2):
            out.append(dict(mode="rdfs", alphabet=name, prefix=list(pre), depth=b[f"replay_{name}_depth"]))
            out.append(dict(mode="dfs", alphabet=name, prefix=list(pre), depth=b[f"pruned_{name}_depth"]))
    for pre in itertools.product(WRITE, repeat=2):
        out.append(dict(mode="wdfs", prefix=list(pre), depth=b["write_depth"]))
    for pre in itertools.product(CORE, repeat=2):  # the same core histories with the flag defaults given as integers
        out.append(dict(mode="rdfs", alphabet="core", prefix=list(pre), depth=5, intflags=True))
    out.append(dict(mode="narrowpid"))
    # the same operations on a CROWD (hundreds of particles, very few of them dead): histories beyond the depth bound, chosen not enumerated
    for n3 in (40, 134, 400):
        crowd = ["ab"] * n3
        out.append(dict(mode="crowd", history=crowd + ["kf", "c", "a1", "km", "c", "kl", "c", "a2", "kf", "kl", "c", "sx", "c"]))
        out.append(dict(mode="wcrowd", history=crowd + ["w", "kf", "w", "a1", "kl", "w", "w"]))
    return out


# ----------------------------------------------------------------- implementation side
def new_state():
    from ladim.state import State

    return State(
        instance_variables=dict(age=float, tag=int),
        particle_variables=dict(weight=float, rt="time"),
        default_values=dict(age=0.0, weight=1.0, **(dict(alive=1, active=1) if _INTFLAGS else {})),
    )


def clone(st):
    new = object.__new__(type(st))
    for slot in type(st).__slots__:
        try:
            v = getattr(st, slot)
        except AttributeError:
            continue
        if isinstance(v, dict):
            v = {k: (x.copy() if isinstance(x, np.ndarray) else x) for k, x in v.items()}
        elif isinstance(v, set):
            v = set(v)
        object.__setattr__(new, slot, v)
    return new


def canon(st):
    items = []
    for k in sorted(st.variables):
        a = np.asarray(st.variables[k])
        items.append((k, str(a.dtype), a.tobytes()))
    return hash((tuple(items), int(st.npid)))


def living_idx(st):
    return [i for i, a in enumerate(st.alive) if a]


def enabled(st, op):
    liv = living_idx(st) if op in ("kf", "km", "kl", "ks", "pl", "in") else None
    if op in ("kf", "kl", "ks", "pl", "in"):
        return len(liv) >= 1
    if op == "km":
        return len(liv) >= 3
    if op == "pd":
        return st.npid > 0
    return True


def apply_impl(st, op):
    p = int(st.npid)
    if op == "a1":
        st.append(X=p + 0.25, Y=2 * p + 0.5, Z=3.0, tag=100 + p, rt=T0 + p)
    elif op == "a2":
        st.append(
            X=np.array([p + 0.25, p + 1.25]),
            Y=np.array([2 * p + 0.5, 2 * p + 2.5]),
            Z=np.array([5.0, 6.0]),
            tag=np.array([100 + p, 101 + p]),
            rt=np.array([T0 + p, T0 + p + 1]),
            age=np.array([7.0, 8.0]),
            weight=np.array([2.0 + p, 3.0 + p]),
        )
    elif op == "ab":
        st.append(X=np.array([p + 0.25, p + 1.25, p + 2.25]), Y=9.0, Z=1.0, tag=55, rt=T0)
    elif op == "a0":
        e = np.array([], float)
        st.append(X=e, Y=e, Z=e, tag=np.array([], int), rt=np.array([], "M8[s]"))
    elif op in ("kf", "km", "kl"):
        liv = living_idx(st)
        i = liv[0] if op == "kf" else liv[-1] if op == "kl" else liv[len(liv) // 2]
        st.alive[i] = False
    elif op == "ks":
        liv = living_idx(st)
        mask = np.ones(len(st), bool)
        mask[liv[0]] = False
        st["alive"] = st.alive & mask
    elif op == "c":
        st.compactify()
    elif op == "sx":
        st["X"] = st.X + 1.0
    elif op == "si":
        st["age"] += 1.0
    elif op == "pl":
        pid = int(st.pid[living_idx(st)[-1]])
        st["weight"][pid] = st["weight"][pid] + 10.0
    elif op == "pd":
        st["weight"][0] = st["weight"][0] + 100.0
    elif op == "al":  # assign an existing array of the declared dtype: the state must not alias it
        st["Y"] = st["X"]
    elif op == "ix":  # in-place update through a local reference, as the tracker does with Z
        x = st["X"]
        x += 0.5
    elif op == "in":  # an IBM settles the first living particle: alive but inactive
        st["active"][living_idx(st)[0]] = False
    elif op == "ad":  # append relying on the defaults after earlier appends gave explicit values
        st.append(X=p + 0.75, Y=1.0, Z=2.0, tag=77, rt=T0 + 5)
    elif op == "a3":  # arrays of length ONE next to longer arrays (numpy broadcasting: many particles from one position)
        st.append(X=np.array([p + 0.25, p + 1.25, p + 2.25]), Y=np.array([4.0]), Z=[2.0], tag=np.array([66]), rt=np.array([T0 + 2]), weight=[0.5])
    elif op == "rf":  # two refused appends (a misspelt variable, an explicit pid): the caller catches the error and goes on using the state
        for kw in (dict(X=1.0, Y=1.0, Z=1.0, tag=1, rt=T0, lenght=3.0), dict(pid=p + 5, X=1.0, Y=1.0, Z=1.0, tag=1, rt=T0)):
            try:
                st.append(**kw)
            except ValueError:
                pass
    else:
        raise util.HarnessError(op)


# ----------------------------------------------------------------- reference model
class Ref:
    def __init__(self):
        self.inst = []  # rows: dict(pid,X,Y,Z,age,tag,alive,active) in state order
        self.weight = []  # by pid
        self.rt = []
        self.npid = 0

    def copy(self):
        r = Ref()
        r.inst = [dict(d) for d in self.inst]
        r.weight = list(self.weight)
        r.rt = list(self.rt)
        r.npid = self.npid
        return r

    def add(self, X, Y, Z, tag, rt, age=0.0, weight=1.0):
        self.inst.append(
            dict(pid=self.npid, X=X, Y=Y, Z=Z, age=age, tag=tag, alive=True, active=True)
        )
        self.weight.append(weight)
        self.rt.append(rt)
        self.npid += 1

    def liv(self):
        return [i for i, d in enumerate(self.inst) if d["alive"]]

    def apply(self, op):
        p = self.npid
        if op == "a1":
            self.add(p + 0.25, 2 * p + 0.5, 3.0, 100 + p, T0 + p)
        elif op == "a2":
            self.add(p + 0.25, 2 * p + 0.5, 5.0, 100 + p, T0 + p, 7.0, 2.0 + p)
            self.add(p + 1.25, 2 * p + 2.5, 6.0, 101 + p, T0 + p + 1, 8.0, 3.0 + p)
        elif op == "ab":
            for k in range(3):
                self.add(p + k + 0.25, 9.0, 1.0, 55, T0)
        elif op == "a0":
            pass
        elif op in ("kf", "km", "kl", "ks"):
            liv = self.liv()
            i = liv[0] if op in ("kf", "ks") else liv[-1] if op == "kl" else liv[len(liv) // 2]
            self.inst[i]["alive"] = False
        elif op == "c":
            self.inst = [d for d in self.inst if d["alive"]]
        elif op == "sx":
            for d in self.inst:
                d["X"] += 1.0
        elif op == "si":
            for d in self.inst:
                d["age"] += 1.0
        elif op == "pl":
            self.weight[self.inst[self.liv()[-1]]["pid"]] += 10.0
        elif op == "pd":
            self.weight[0] += 100.0
        elif op == "al":
            for d in self.inst:
                d["Y"] = d["X"]
        elif op == "ix":
            for d in self.inst:
                d["X"] += 0.5
        elif op == "ad":
            self.add(p + 0.75, 1.0, 2.0, 77, T0 + 5)
        elif op == "a3":
            for k in range(3):
                self.add(p + k + 0.25, 4.0, 2.0, 66, T0 + 2, 0.0, 0.5)
        elif op == "rf":
            pass  # a refused release leaves no trace
        elif op == "in":
            self.inst[self.liv()[0]]["active"] = False

    def nontrivial(self):
        gone = self.npid - len(self.liv())
        return gone > 0 and len(self.liv()) > 0


def compare(st, ref):
    """Return list of (sig, msg) disagreements between the real State and the reference."""
    bad = []
    n = len(ref.inst)
    if int(st.npid) != ref.npid:
        bad.append(("npid", f"npid={st.npid} expected {ref.npid}"))
    for v in IVARS:
        a = np.asarray(st.variables[v])
        exp = [d[v] for d in ref.inst]
        if len(a) != n:
            bad.append(("length", f"len({v})={len(a)} expected {n}"))
            continue
        if n and not np.array_equal(a, np.array(exp, dtype=a.dtype)):
            sig = "pid" if v == "pid" else "instance-values"
            bad.append((sig, f"{v}={a.tolist()} expected {exp}"))
    if str(st.variables["pid"].dtype)[:3] != "int":
        bad.append(("dtype", f"pid dtype {st.variables['pid'].dtype}"))
    pid = np.asarray(st.variables["pid"])
    if len(pid) == n and n:
        if np.any(np.diff(pid) <= 0):
            bad.append(("order", f"pid not strictly increasing: {pid.tolist()}"))
        if np.any(pid < np.arange(n)):
            bad.append(("order", f"pid[k] < k: {pid.tolist()}"))
    for v, exp in (("weight", ref.weight), ("rt", ref.rt)):
        a = np.asarray(st.variables[v])
        if len(a) != ref.npid:
            bad.append(("particle-values", f"len({v})={len(a)} expected npid={ref.npid}"))
        elif ref.npid and not np.array_equal(a, np.array(exp, dtype=a.dtype)):
            bad.append(("particle-values", f"{v}={a.tolist()} expected {exp}"))
    return bad


def run_history(hist, case_tag):
    """Replay a history from scratch; return violations (first divergence only)."""
    st, ref = new_state(), Ref()
    for i, op in enumerate(hist):
        if not enabled(st, op):
            return []
        try:
            apply_impl(st, op)
        except util.HarnessError:
            raise
        except Exception as e:  # the real State refused a legal operation
            return [util.viol("exception", f"{op} raised {e!r} after {hist[:i]}", dict(mode="hist", history=hist[: i + 1]))]
        ref.apply(op)
        bad = compare(st, ref)
        if bad:
            return [
                util.viol(sig, f"after {hist[: i + 1]}: {msg}", dict(mode="hist", history=hist[: i + 1]))
                for sig, msg in bad[:2]
            ]
    return []


def replay_dfs(case):
    """Every operation sequence extending the prefix, each executed FROM SCRATCH on a fresh State (no cloning, so hidden
    state and object identities are exactly those of a real run); the state after the last operation is compared."""
    alpha = FULL if case["alphabet"] == "full" else CORE
    depth = case["depth"]
    stats = dict(nodes=0, ops=0, nontrivial=0)
    viols, outcomes = [], set()
    v = run_history(case["prefix"], case)
    if v:
        return util.result(evals=1, viol=v, states=1, transitions=len(case["prefix"]))

    def visit(hist):
        st, ref = new_state(), Ref()
        for i, op in enumerate(hist):
            if not enabled(st, op):
                return None
            try:
                apply_impl(st, op)
            except util.HarnessError:
                raise
            except Exception as e:
                return [("exception", f"{op} raised {e!r} after {hist[:i]}")]
            ref.apply(op)
            stats["ops"] += 1
        stats["nodes"] += 1
        if ref.nontrivial():
            stats["nontrivial"] += 1
        if len(hist) == depth:
            outcomes.add((len(ref.inst), ref.npid, len(ref.liv())))
        return compare(st, ref)

    def rec(hist):
        for op in alpha:
            h2 = hist + [op]
            bad = visit(h2)
            if bad is None:
                continue
            if bad:
                if len(viols) < 10:
                    for sig, msg in bad[:2]:
                        viols.append(util.viol(sig, f"after {h2}: {msg}", dict(mode="hist", history=h2)))
                continue
            if len(h2) < depth:
                rec(h2)

    if len(case["prefix"]) < depth:
        rec(list(case["prefix"]))
    return util.result(evals=stats["nodes"] + 1, nontrivial=stats["nontrivial"], viol=viols, outcomes=[list(o) for o in outcomes],
                       states=stats["nodes"] + 1, transitions=stats["ops"], traces=stats["nodes"] + 1,
                       sample=dict(mode="replay", alphabet=case["alphabet"], prefix=case["prefix"], depth=depth, example_history=case["prefix"] + alpha[: max(0, depth - 2)]),
                       extra=dict(histories_replayed_from_scratch=stats["nodes"]))


def dfs(case):
    alpha = FULL if case["alphabet"] == "full" else CORE
    depth = case["depth"]
    stats = dict(states=0, transitions=0, nontrivial=0, distinct=0, diffchk=0)
    viols = []
    seen: dict[int, int] = {}
    outcomes = set()

    v = run_history(case["prefix"], case)
    if v:
        return util.result(evals=1, viol=v, states=1, transitions=len(case["prefix"]))
    st, ref = new_state(), Ref()
    hist = []
    for op in case["prefix"]:
        if not enabled(st, op):
            return util.result(evals=0, states=0, transitions=0)
        apply_impl(st, op)
        ref.apply(op)
        hist.append(op)

    def rec(st, ref, hist):
        rem = depth - len(hist)
        key = canon(st)
        if seen.get(key, -1) >= rem:
            return
        if key not in seen:
            stats["distinct"] += 1
            if ref.nontrivial():
                stats["nontrivial"] += 1
        seen[key] = rem
        stats["states"] += 1
        if len(hist) <= 4:  # differential: clone-reached state == replay from scratch
            fresh = new_state()
            for op in hist:
                apply_impl(fresh, op)
            stats["diffchk"] += 1
            if canon(fresh) != key:
                viols.append(util.viol("history-dependence", f"state after {hist} differs between incremental and from-scratch execution", dict(mode="diffhist", history=list(hist))))
        if rem == 0:
            outcomes.add((len(ref.inst), ref.npid, len(ref.liv())))
            return
        for op in alpha:
            if not enabled(st, op):
                continue
            s2, r2 = clone(st), ref.copy()
            h2 = hist + [op]
            stats["transitions"] += 1
            try:
                apply_impl(s2, op)
            except util.HarnessError:
                raise
            except Exception as e:
                if len(viols) < 10:
                    viols.append(util.viol("exception", f"{op} raised {e!r} after {hist}", dict(mode="hist", history=h2)))
                continue
            r2.apply(op)
            bad = compare(s2, r2)
            if bad:
                if len(viols) < 10:
                    for sig, msg in bad[:2]:
                        viols.append(util.viol(sig, f"after {h2}: {msg}", dict(mode="hist", history=h2)))
                continue  # do not explore beyond a broken state
            rec(s2, r2, h2)

    rec(st, ref, hist)
    return util.result(
        evals=stats["transitions"] + 1,
        nontrivial=stats["nontrivial"],
        viol=viols,
        outcomes=[list(o) for o in outcomes],
        states=stats["states"],
        transitions=stats["transitions"],
        traces=stats["transitions"] + stats["diffchk"],
        sample=dict(alphabet=case["alphabet"], prefix=case["prefix"], depth=depth, example_history=case["prefix"] + alpha[: max(0, depth - 2)]),
        extra=dict(distinct_canonical_states=stats["distinct"], from_scratch_differentials=stats["diffchk"]),
    )


# ------------------------------------------------ reduced exploration with the real Output
def run_write_history(hist):
    from netCDF4 import Dataset

    from ladim.out_netcdf import Output
    from ladim.timekeeper import TimeKeeper

    d = util.scratch("c05")
    st, ref = new_state(), Ref()
    timer = TimeKeeper(start="2020-01-01", stop="2020-01-02", dt=60)
    ivars = {
        v: dict(encoding=dict(datatype=t), attributes=dict())
        for v, t in (("pid", "i4"), ("X", "f8"), ("tag", "i4"))
    }
    out = Output(
        modules=dict(time=timer, state=st, grid=None),
        filename=d / "o.nc",
        output_period=60,
        instance_variables=ivars,
    )
    snaps = []
    try:
        for i, op in enumerate(hist):
            if op == "w":
                timer.update()
                out.write(st)
                # whether writing a record also removes the dead from the state is the output module's own business: both are accepted,
                # the RECORD holds the living particles either way
                if len(st) != len(ref.inst):
                    ref.apply("c")
                snaps.append([(r["pid"], r["X"], r["tag"]) for r in ref.inst if r["alive"]])
            else:
                if not enabled(st, op):
                    out.close()
                    return None
                apply_impl(st, op)
                ref.apply(op)
            bad = compare(st, ref)
            if bad:
                out.close()
                return [util.viol("write:" + bad[0][0], f"after {hist[: i + 1]}: {bad[0][1]}", dict(mode="whist", history=hist[: i + 1]))]
        out.close()
    except util.HarnessError:
        raise
    except Exception as e:
        return [util.viol("write:exception", f"{e!r} in {hist}", dict(mode="whist", history=hist))]
    with Dataset(d / "o.nc") as nc:
        nc.set_auto_mask(False)
        cnt = nc.variables["particle_count"][:].tolist()
        pid = nc.variables["pid"][:]
        X = nc.variables["X"][:]
        tag = nc.variables["tag"][:]
    case = dict(mode="whist", history=hist)
    if len(cnt) != len(snaps):
        return [util.viol("write:records", f"{len(cnt)} records for {len(snaps)} writes in {hist}", case)]
    if sum(cnt) != len(pid):
        return [util.viol("write:records", f"sum(particle_count)={sum(cnt)} != len(pid)={len(pid)} in {hist}", case)]
    s = 0
    for k, c in enumerate(cnt):
        got = list(zip(pid[s : s + c].tolist(), X[s : s + c].tolist(), tag[s : s + c].tolist()))
        s += c
        if got != [tuple(x) for x in snaps[k]]:
            return [util.viol("write:record-values", f"record {k} of {hist}: {got} expected {snaps[k]}", case)]
        p = [g[0] for g in got]
        if any(b <= a for a, b in zip(p, p[1:])) or any(q < i for i, q in enumerate(p)):
            return [util.viol("write:order", f"record {k} pids {p} in {hist}", case)]
    return []


def wdfs(case):
    depth = case["depth"]
    n = nt = 0
    viols = []
    outcomes = set()
    for L in range(len(case["prefix"]), depth + 1):
        for suf in itertools.product(WRITE, repeat=L - len(case["prefix"])):
            hist = case["prefix"] + list(suf)
            if hist[-1] != "w":
                continue  # histories are identified by their last write
            v = run_write_history(hist)
            if v is None:
                continue
            n += 1
            kills = sum(1 for o in hist if o in ("kf", "kl"))
            if kills and hist.count("w") >= 2:
                nt += 1
            outcomes.add((hist.count("w"), kills))
            if v and len(viols) < 10:
                viols.extend(v)
        util.cleanup_scratch(keep_root=True)
    return util.result(
        evals=n, nontrivial=nt, viol=viols, outcomes=[list(o) for o in outcomes],
        states=n, transitions=n * 3, traces=n,
        sample=dict(mode="write", example_history=case["prefix"] + ["kf", "w"]),
    )


def run_narrowpid(case):
    """pid declared with a narrow integer type and more releases than it holds: identifiers must keep counting, never wrap."""
    from ladim.state import State

    viols = []
    for dt_, n in (("i2", 40000), ("i1", 300)):
        st = State(instance_variables=dict(pid=dt_))
        try:
            st.append(X=np.zeros(n), Y=1.0, Z=2.0)
            st.append(X=np.zeros(5), Y=1.0, Z=2.0)
            ok = np.array_equal(np.asarray(st.pid, dtype=np.int64), np.arange(n + 5)) and st.npid == n + 5
            msg = f"pids after releasing {n}+5 particles: min {int(np.min(st.pid))} max {int(np.max(st.pid))} npid {st.npid}"
        except Exception as e:  # refusing the overflow loudly is fine, wrapping silently is not
            ok, msg = True, repr(e)
        if not ok:
            viols.append(util.viol("pid:wrapped", f"pid declared as {dt_}: {msg}", case))
    return util.result(evals=2, nontrivial=2, viol=viols, outcomes=["narrowpid"], states=2, transitions=4, sample=case)


_INTFLAGS = False


def run_case(case):
    """`intflags`: the alive/active defaults are given as the integers 1 in the configuration (`default_values: {alive: 1, active: 1}`)."""
    global _INTFLAGS
    _INTFLAGS = bool(case.get("intflags"))
    try:
        res = _run_case(case)
    finally:
        _INTFLAGS = False
    if case.get("intflags"):
        for v in res.get("viol", []):
            v["case"] = dict(v["case"], intflags=True)
            v["msg"] = "[flag defaults given as integers] " + v["msg"]
    return res


def _run_case(case):
    if case["mode"] == "narrowpid":
        return run_narrowpid(case)
    if case["mode"] == "dfs":
        return dfs(case)
    if case["mode"] == "rdfs":
        return replay_dfs(case)
    if case["mode"] == "wdfs":
        return wdfs(case)
    if case["mode"] in ("hist", "crowd"):
        v = run_history(case["history"], case)
        if case["mode"] == "crowd":
            v = [dict(x, case=dict(case)) for x in v[:1]]  # the replay is the whole crowd history
            return util.result(evals=len(case["history"]), nontrivial=1, viol=v, outcomes=[["crowd", len(v)]], states=len(case["history"]), transitions=len(case["history"]))
        return util.result(evals=1, viol=v, outcomes=[len(v)])
    if case["mode"] == "wcrowd":
        v = [dict(x, case=dict(case)) for x in (run_write_history(case["history"]) or [])[:1]]
        return util.result(evals=len(case["history"]), nontrivial=1, viol=v, outcomes=[["wcrowd", len(v)]], states=len(case["history"]), transitions=len(case["history"]))
    if case["mode"] == "diffhist":
        a, b = new_state(), new_state()
        for op in case["history"]:
            a = clone(a)
            apply_impl(a, op)
            apply_impl(b, op)
        v = [] if canon(a) == canon(b) else [util.viol("history-dependence", f"{case['history']}", case)]
        return util.result(evals=1, viol=v, outcomes=[len(v)])
    if case["mode"] == "whist":
        v = run_write_history(case["history"]) or []
        return util.result(evals=1, viol=v, outcomes=[len(v)])
    raise util.HarnessError(case)
