"""C20 - impossible set-ups are refused before the simulation starts.

Fault enumeration: every single fault of the listed kinds is injected into every valid base scenario
(forward/reversed x single/multi-file forcing x discrete/continuous release). Each base scenario is first run
WITHOUT fault (it must succeed and write records). Oracle: the faulty run ends with an error, no output record
exists, and the time loop never started (a recording IBM proves that update was not called).
"""

from __future__ import annotations

import itertools
import sys
import types
from pathlib import Path

import numpy as np
import yaml

from mc import drive, util, world

ID = "C20"
LEVEL = "fault_enumeration"
RULE = (
    "8 base scenarios (forward/reversed x single/multi-file forcing x discrete/continuous release), each run fault-free first, x every single fault of "
    "the fault list (forcing coverage/order/duplication, missing time keys, stop on the wrong side, release window/position faults, missing files and "
    "sections, illegal subgrids); non-trivial = a faulty run whose fault-free base ran and wrote >= 2 records; (scenario, fault) pairs distinct by construction"
)
RULE += " Beyond the lattice (chosen scenarios, not enumerated): a record of 800 days with a missing last step; a packed time coordinate; a plug-in grid without ll2xy (each with a control run)."
ASSUMPTIONS = ["one fault at a time", "the kind of error (SystemExit code or exception) is recorded, not prescribed"]

S0 = world.tosec("2020-05-01T00:00:00")
DT = 600
NSTEPS = 6

FAULTS = [
    "none",
    "forcing:starts-one-frame-late", "forcing:starts-one-second-late", "forcing:ends-one-frame-early", "forcing:ends-one-second-early",
    "forcing:out-of-order-across-files", "forcing:duplicated-frame-across-files", "forcing:no-file",
    "time:no-start", "time:no-stop", "time:no-dt", "time:stop-on-wrong-side", "time:dt-zero",
    "release:all-before-start", "release:all-after-stop", "release:all-exactly-at-stop", "release:no-position", "release:x-only", "release:lon-only",
    "release:file-missing", "release:file-name-empty",
    "grid:file-missing", "config:file-missing", "warm:file-missing",
    "section:no-time", "section:no-forcing", "section:no-tracker", "section:no-release", "section:no-output",
    "subgrid:i0>=i1", "subgrid:beyond-grid", "subgrid:touches-index-0", "subgrid:too-few-numbers", "subgrid:j0>=j1",
    "subgrid:negative-j1-below-j0", "subgrid:negative-i0-above-i1", "subgrid:j-beyond-grid", "subgrid:negative-beyond-grid",
    "forcing:starts-half-a-step-late", "forcing:ends-half-a-step-early", "forcing:duplicated-frame-in-one-file", "forcing:out-of-order-in-one-file",
    "time:start-equals-stop", "release:empty-file", "release:position-columns-misspelt",
    "subgrid:i1-far-beyond", "subgrid:j1-far-beyond", "subgrid:i0-far-negative", "release:all-before-start+stray-frequency",
    "forcing:ends-early+other-time-units-in-second-file", "forcing:starts-late+other-time-units-in-second-file",
    "release:lon-lat-only+grid-without-ll2xy",
    "forcing:ends-one-step-early+record-starts-years-before", "forcing:ends-early+packed-time-coordinate", "forcing:starts-late+packed-time-coordinate",
    "release:row-with-blank-position", "release:all-half-a-step-before-start", "time:dt-zero-iso", "time:dt-zero-list", "time:dt-negative",
    # a mandatory section missing from a configuration DICTIONARY handed to Model directly (scripts, notebooks), not through a file
    "model-dict:no-tracker", "model-dict:no-time", "model-dict:no-forcing", "model-dict:no-release", "model-dict:no-output",
    # a plug-in file that an earlier run of this process loaded and that has been removed since: a missing file like any other
    "plugin:file-removed-after-an-earlier-run",
    "release:lonlat-row-with-blank-position",
]
PACKED_CONTROL = "control:packed-time-coordinate"  # the same packed files covering the window: must run
NOLL = "release:lon-lat-only+grid-without-ll2xy"
LLBLANK = "release:lonlat-row-with-blank-position"
LL_CONTROL = "control:lonlat-release"  # the same geographic release file without the incomplete row: must run
NOLL_CONTROL = "control:xy-release+grid-without-ll2xy"  # the same plug-in grid with an X/Y release file: must run


def bounds(tier, seed):
    return dict(bases=8, faults=len(FAULTS) - 1)


def cases(tier, seed):
    out = []
    for rev, multi, cont in itertools.product([False, True], [False, True], [False, True]):
        out.append(dict(rev=rev, multi=multi, cont=cont))
    # the same faults through the real command line (`python -m ladim`), reading the process exit status
    bases = list(itertools.product([False, True], [False, True], [False, True]))
    sel = bases if tier == "thorough" else [bases[seed % 8]]
    for rev, multi, cont in sel:
        for k in range(0, len(FAULTS) - 1, 6):
            out.append(dict(rev=rev, multi=multi, cont=cont, subprocess=True, faults=FAULTS[1:][k : k + 6]))
    return out


W = world.World(imax=10, jmax=8, N=2, h=30.0, dx=800.0)


def events():
    reg = sys.modules.setdefault("verif_reclog", types.ModuleType("verif_reclog"))
    if not hasattr(reg, "events"):
        reg.events = []
    return reg.events


def build(base, fault, d):
    """Write world, release file and configuration for the base scenario with one fault. Returns config path."""
    sgn = -1 if base["rev"] else 1
    t = lambda s: S0 + sgn * s * DT  # noqa: E731
    slots = [-2, 1, 4, NSTEPS + 2]
    times = {s: t(s) for s in slots}
    if fault == "forcing:starts-one-frame-late":
        slots = slots[1:]
    elif fault == "forcing:starts-one-second-late":
        slots = [0] + slots[1:]
        times[0] = t(0) + sgn * 1
    elif fault == "forcing:ends-one-frame-early":
        slots = slots[:-1]
    elif fault == "forcing:ends-one-second-early":
        slots = slots[:-1] + [NSTEPS]
        times[NSTEPS] = t(NSTEPS) - sgn * 1
    elif fault == "forcing:starts-half-a-step-late":
        slots = [0] + slots[1:]
        times[0] = t(0) + sgn * DT // 2
    elif fault == "forcing:ends-one-step-early+record-starts-years-before":
        # relative to the length of the whole record (800 days) the missing step is tiny - it is missing all the same
        slots = slots[:-1] + [NSTEPS - 1]
        times[-2] = t(0) - sgn * 800 * 86400
        times[NSTEPS - 1] = t(NSTEPS - 1)
    elif fault == "forcing:ends-early+packed-time-coordinate":
        slots = slots[:-1]
    elif fault == "forcing:starts-late+packed-time-coordinate":
        slots = slots[1:]
    elif fault == "forcing:ends-half-a-step-early":
        slots = slots[:-1] + [NSTEPS]
        times[NSTEPS] = t(NSTEPS) - sgn * DT // 2
    cal = sorted(slots, key=lambda s: times[s])
    fr = lambda s: dict(t=times[s], **W.uniform(0.2 + 0.01 * s, 0.05))  # noqa: E731
    multi = base["multi"] or fault.startswith("forcing:out-of-order") or fault.startswith("forcing:duplicated") or fault.endswith("other-time-units-in-second-file")
    if multi:
        h = len(cal) // 2
        groups = [cal[:h], cal[h:]]
        if fault == "forcing:out-of-order-across-files":
            groups = [cal[h:], cal[:h]]
        if fault == "forcing:duplicated-frame-across-files":
            groups = [cal[:h], cal[h - 1 :]]
    else:
        groups = [cal]
    if fault == "forcing:duplicated-frame-in-one-file":
        groups[-1] = groups[-1][:1] + groups[-1]
    if fault == "forcing:out-of-order-in-one-file":
        groups[-1] = groups[-1][::-1]
    units_fault = fault.endswith("other-time-units-in-second-file")
    if units_fault:
        # true coverage is short by two steps; decoded with the FIRST file's epoch the second file would look two steps later/earlier
        if fault.startswith("forcing:ends-early"):
            cal = cal[:-1]
        else:
            cal = cal[1:]
        h = len(cal) // 2
        groups = [cal[:h], cal[h:]]
    for gi, g in enumerate(groups):
        tu = "seconds since 1970-01-01 00:00:00"
        if gi == 1:
            tu = "seconds since 1969-12-31 23:40:00"  # legal: every file states its own epoch
            if units_fault:
                late_file = (fault.startswith("forcing:ends-early")) != base["rev"]
                tu = "seconds since 1969-12-31 23:40:00" if late_file else "seconds since 1970-01-01 00:20:00"
        if gi == 0 and units_fault and fault.startswith("forcing:starts-late") != base["rev"] and False:
            pass
        if fault.endswith("packed-time-coordinate"):  # seconds since 2020 stored as integers of half seconds
            W.write_file(d / f"f_{gi:02d}.nc", [fr(s) for s in g], time_units="seconds since 2020-01-01 00:00:00", time_scale=0.5)
        else:
            W.write_file(d / f"f_{gi:02d}.nc", [fr(s) for s in g], time_units=tu)
    W.write_file(d / "grid.nc", [fr(cal[0])])
    # release
    rows_slots = [0, 2, 3] if not base["cont"] else [0, 3]
    if fault in ("release:all-before-start", "release:all-before-start+stray-frequency"):
        rows_slots = [-3, -1]
    elif fault == "release:all-after-stop":
        rows_slots = [NSTEPS + 1, NSTEPS + 3]
    elif fault == "release:all-exactly-at-stop":
        rows_slots = [NSTEPS]
    elif fault == "release:all-half-a-step-before-start":  # off the step grid: less than one step before the start is still before the start
        rows_slots = [-0.5]
    cols = ["release_time", "X", "Y", "Z"]
    if fault == "release:no-position":
        cols = ["release_time", "Z"]
    elif fault == "release:x-only":
        cols = ["release_time", "X", "Z"]
    elif fault == "release:lon-only":
        cols = ["release_time", "lon", "Z"]
    elif fault == "release:position-columns-misspelt":
        cols = ["release_time", "x", "y", "Z"]
    elif fault in (LLBLANK, LL_CONTROL):  # positions given by longitude and latitude (the ROMS grid converts them)
        cols = ["release_time", "lon", "lat", "Z"]
    elif fault == NOLL:  # geographic positions only, on a grid that has no geographic mapping: no position can be derived
        cols = ["release_time", "lon", "lat", "Z"]
    lines = [" ".join(cols)]
    for k, s in enumerate(rows_slots):
        vals = dict(release_time=world.iso(t(s)), X=3.3 + k, Y=3.5, Z=5.0, lon=5.03, lat=3.25, x=3.3, y=3.5)
        if fault in (LLBLANK, LL_CONTROL):  # the generated grid has lon = 5 + 0.01 x + 0.001 y, lat = 60 + 0.005 y - 0.0005 x
            vals.update(lon=5.0 + 0.01 * (3.3 + k) + 0.001 * 3.5, lat=60.0 + 0.005 * 3.5 - 0.0005 * (3.3 + k))
        lines.append(" ".join(str(vals[c]) for c in cols))
    if fault == LLBLANK:  # a row with the time and one number: longitude only, no latitude
        lines.insert(2, f"{world.iso(t(1))} 5.05")
    if fault == "release:row-with-blank-position":  # a later row that gives the time and one number only: no position (the parser fills in NaN)
        lines.insert(2, f"{world.iso(t(1))} 4.4")
    if fault == "release:empty-file":
        lines = lines[:1]
    (d / "r.rls").write_text("\n".join(lines) + "\n")
    rec = drive.plug("rec_modules.py")
    conf = dict(version=2)
    conf["time"] = dict(start=world.iso(t(0)), stop=world.iso(t(NSTEPS)), dt=DT)
    if base["rev"]:
        conf["time"]["time_reversal"] = True
    conf["grid"] = dict(module="ladim.ROMS", filename=str(d / "grid.nc"))
    conf["forcing"] = dict(module="ladim.ROMS", filename=str(d / "f_*.nc"))
    conf["tracker"] = dict(advection="EF")
    conf["release"] = dict(release_file=str(d / "r.rls"))
    if base["cont"]:
        conf["release"].update(continuous=True, release_frequency=2 * DT)
    elif fault == "release:all-before-start+stray-frequency":
        conf["release"]["release_frequency"] = 2 * DT  # left over in a discrete set-up
    conf["ibm"] = dict(module=rec)
    if fault == "plugin:file-removed-after-an-earlier-run":
        import shutil

        shutil.copy(rec, d / "my_ibm.py")
        conf["ibm"] = dict(module=str(d / "my_ibm"))  # given without .py
    conf["output"] = dict(filename=str(d / "out.nc"), output_period=DT, instance_variables={v: world.ovar("i4" if v == "pid" else "f8") for v in ("pid", "X", "Y", "Z")})
    # ---- configuration-level faults
    if fault == "time:no-start":
        del conf["time"]["start"]
    elif fault == "time:no-stop":
        del conf["time"]["stop"]
    elif fault == "time:no-dt":
        del conf["time"]["dt"]
    elif fault == "time:dt-zero":
        conf["time"]["dt"] = 0
    elif fault == "time:dt-zero-iso":
        conf["time"]["dt"] = "PT0S"
    elif fault == "time:dt-zero-list":
        conf["time"]["dt"] = [0, "s"]
    elif fault == "time:dt-negative":
        conf["time"]["dt"] = -DT
    elif fault == "time:stop-on-wrong-side":
        conf["time"]["stop"] = world.iso(t(-NSTEPS))
    elif fault == "forcing:no-file":
        conf["forcing"]["filename"] = str(d / "nothing_*.nc")
    elif fault == "release:file-missing":
        conf["release"]["release_file"] = str(d / "missing.rls")
    elif fault == "release:file-name-empty":
        conf["release"]["release_file"] = ""
    elif fault == "grid:file-missing":
        conf["grid"]["filename"] = str(d / "nogrid.nc")
    elif fault == "warm:file-missing":
        conf["warm_start"] = dict(filename=str(d / "nowarm.nc"), variables=[])
    elif fault.startswith("section:no-"):
        del conf[fault.split("-", 1)[1]]
    elif fault == "subgrid:i0>=i1":
        conf["grid"]["subgrid"] = [5, 5, 1, 7]
    elif fault == "subgrid:j0>=j1":
        conf["grid"]["subgrid"] = [1, 9, 6, 3]
    elif fault == "subgrid:beyond-grid":
        conf["grid"]["subgrid"] = [1, 10, 1, 7]
    elif fault == "subgrid:touches-index-0":
        conf["grid"]["subgrid"] = [0, 9, 1, 7]
    elif fault == "subgrid:too-few-numbers":
        conf["grid"]["subgrid"] = [1, 9, 1]
    elif fault == "subgrid:negative-j1-below-j0":  # grid is 10 x 8: j1 = 8 - 4 = 4 <= j0 = 5
        conf["grid"]["subgrid"] = [1, 9, 5, -4]
    elif fault == "subgrid:negative-i0-above-i1":  # i0 = 10 - 2 = 8 >= i1 = 7
        conf["grid"]["subgrid"] = [-2, 7, 1, 7]
    elif fault == "subgrid:j-beyond-grid":
        conf["grid"]["subgrid"] = [1, 9, 1, 8]
    elif fault == "subgrid:negative-beyond-grid":  # j0 = 8 - 9 = -1
        conf["grid"]["subgrid"] = [1, 9, -9, 7]
    elif fault == "subgrid:i1-far-beyond":  # 17 = 7 modulo the grid size 10
        conf["grid"]["subgrid"] = [1, 17, 1, 7]
    elif fault == "subgrid:j1-far-beyond":  # 14 = 6 modulo 8
        conf["grid"]["subgrid"] = [1, 9, 1, 14]
    elif fault == "subgrid:i0-far-negative":  # -19 = 1 modulo 10
        conf["grid"]["subgrid"] = [-19, 9, 1, 7]
    elif fault == "time:start-equals-stop":
        conf["time"]["stop"] = conf["time"]["start"]
    if fault in (NOLL, NOLL_CONTROL):
        conf["grid"] = dict(module=drive.plug("agrid_noll.py"), filename="none", imax=W.imax, jmax=W.jmax, dx=800.0, h=30.0)
        conf["forcing"] = dict(module=drive.plug("aforce.py"), filename="none", field="const", params=dict(a=0.0002, b=0.00005, L=100.0))
    path = d / "ladim.yaml"
    if fault != "config:file-missing":
        path.write_text(yaml.safe_dump(world.clean(conf), sort_keys=False))
    return path


def run_one(base, fault, d=None):
    from netCDF4 import Dataset

    if d is None:
        d = util.scratch("c20")
    else:  # the same paths are re-used for the next set-up of this scenario: nothing may be remembered about the old files
        for f in d.iterdir():
            f.unlink()
    path = build(base, "none" if fault.startswith("model-dict:") else fault, d)
    events().clear()
    err = None
    try:
        if fault.startswith("model-dict:"):
            from ladim.configure import configure
            from ladim.model import Model

            try:
                config = configure(str(path))
                del config[fault.split("no-")[1]]
                model = Model(config)
                for _ in range(model.timer.Nsteps):
                    model.update()
                model.finish()
            except SystemExit as e:
                raise drive.RunFailed("SystemExit", repr(e.code)) from e
            except Exception as e:
                raise drive.RunFailed(type(e).__name__, str(e)[:300]) from e
        elif fault == "plugin:file-removed-after-an-earlier-run":
            drive.run_main_file(path)  # the earlier run, with the plug-in in place: must run (a failure here is reported as such)
            for f_ in list(d.glob("out*.nc")):
                f_.unlink()
            (d / "my_ibm.py").unlink()
            events().clear()
            drive.run_main_file(path)
        else:
            drive.run_main_file(path)
    except drive.RunFailed as e:
        err = f"{e.kind}:{e.detail}"
    loop_started = any(e["mod"] == "ibm" and e["meth"] == "update" for e in events())
    nrec = 0
    outs = sorted(d.glob("out*.nc"))
    for o in outs:
        try:
            with Dataset(o) as nc:
                nrec += len(nc.dimensions["time"])
        except Exception:
            pass
    return err, loop_started, nrec


def run_subprocess(base):
    import subprocess

    from netCDF4 import Dataset

    b = {k: base[k] for k in ("rev", "multi", "cont")}
    viols, n = [], 0
    todo = ["none"]
    for f in base["faults"]:
        todo += [NOLL_CONTROL, f] if f == NOLL else [LL_CONTROL, f] if f == LLBLANK else [PACKED_CONTROL, f] if f == "forcing:ends-early+packed-time-coordinate" else [f]
    for fault in todo:
        if fault.startswith("model-dict:") or fault.startswith("plugin:file-removed"):
            continue  # not expressible on the command line
        if (fault.startswith("release:all-before-start") or fault == "release:all-half-a-step-before-start") and b["cont"]:
            continue
        d = util.scratch("c20s")
        path = build(b, fault, d)
        if path.exists():
            conf = yaml.safe_load(path.read_text())
            if "ibm" in conf:
                conf["ibm"] = dict(module=drive.plug("sibm.py"), touchfile=str(d / "loop_started"))
            path.write_text(yaml.safe_dump(conf, sort_keys=False))
        r = subprocess.run(["/venv/bin/python", "-m", "ladim", "-s", str(path)], cwd=d, capture_output=True, text=True, check=False)
        n += 1
        nrec = 0
        for o in sorted(d.glob("out*.nc")):
            try:
                with Dataset(o) as nc:
                    nrec += len(nc.dimensions["time"])
            except Exception:
                pass
        started = (d / "loop_started").exists()
        c = dict(b, subprocess=True, faults=[fault])
        tag = f"[python -m ladim] base={b} fault={fault}"
        if fault in ("none", NOLL_CONTROL, PACKED_CONTROL, LL_CONTROL):
            if r.returncode != 0 or nrec < 2 or not started:
                viols.append(util.viol("base-scenario-broken", f"{tag}: exit status {r.returncode}, records {nrec}, loop started {started}: {r.stderr[-300:]}", c))
                break
            continue
        if r.returncode == 0:
            viols.append(util.viol(f"not-refused:{fault}", f"{tag}: exit status 0 (records {nrec}, loop started {started})", c))
        elif started:
            viols.append(util.viol(f"refused-too-late:{fault}", f"{tag}: exit status {r.returncode} after the time loop had started", c))
        elif nrec > 0:
            viols.append(util.viol(f"records-written:{fault}", f"{tag}: {nrec} records exist although exit status {r.returncode}", c))
        util.cleanup_scratch(keep_root=True)
    return util.result(evals=n, nontrivial=max(n - 1, 0), viol=viols, outcomes=[["subprocess", len(viols)]], states=n, transitions=n, sample=dict(base))


def run_case(base):
    if base.get("subprocess"):
        return run_subprocess(base)
    viols, n, nt = [], 0, 0
    outcomes = set()
    only = base.get("only")
    b = {k: base[k] for k in ("rev", "multi", "cont")}
    dshared = util.scratch("c20")
    err, started, nrec = run_one(b, "none", dshared)
    n += 1
    if err is not None or nrec < 2 or not started:
        viols.append(util.viol("base-scenario-broken", f"fault-free base {b} did not run: error={err} records={nrec} loop_started={started}", dict(b, only="none")))
        return util.result(evals=n, nontrivial=0, viol=viols, outcomes=["base-broken"])
    for fault in FAULTS[1:]:
        if only and only != fault:
            continue
        if (fault.startswith("release:all-before-start") or fault == "release:all-half-a-step-before-start") and b["cont"]:
            continue  # not a fault: a continuous release keeps releasing the rows of the latest file time before start
        ctl = NOLL_CONTROL if fault == NOLL else LL_CONTROL if fault == LLBLANK else PACKED_CONTROL if fault == "forcing:ends-early+packed-time-coordinate" else None
        if ctl:
            err, started, nrec = run_one(b, ctl, dshared)
            n += 1
            if err is not None or nrec < 2 or not started:
                viols.append(util.viol("base-scenario-broken", f"control {ctl} on {b} did not run: error={err} records={nrec} loop_started={started}", dict(b, only=fault)))
                continue
        err, started, nrec = run_one(b, fault, dshared)
        n += 1
        nt += 1
        outcomes.add((fault.split(":")[0], (err or "none").split(":")[0]))
        c = dict(b, only=fault)
        tag = f"base={b} fault={fault}"
        if err is None:
            viols.append(util.viol(f"not-refused:{fault}", f"{tag}: the run ended normally (records written: {nrec}, time loop started: {started})", c))
        elif started:
            viols.append(util.viol(f"refused-too-late:{fault}", f"{tag}: the error ({err}) came after the time loop had started (records: {nrec})", c))
        elif nrec > 0:
            viols.append(util.viol(f"records-written:{fault}", f"{tag}: {nrec} output records exist although the set-up was refused ({err})", c))
    seen, uniq = set(), []
    for v in viols:
        if v["sig"] not in seen:
            seen.add(v["sig"])
            uniq.append(v)
    return util.result(evals=n, nontrivial=nt, viol=uniq, outcomes=[list(o) for o in outcomes], states=n, transitions=n, sample=dict(b, faults=FAULTS[1:6] + ["..."]))


def warmup():
    run_one(dict(rev=False, multi=False, cont=False), "none")
