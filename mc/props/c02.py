"""C02 - particles feel the interpolated C-grid forcing at their own position.

World lattice (bathymetry x stretching x mask x storage x field) x all legal subgrids x a 0.25
position lattice x depths; the real Grid + Forcing are compared with the reference interpolator
of mc/refinterp.py evaluated on the global arrays, plus independent exactness / convexity checks.
"""

from __future__ import annotations

import itertools

import numpy as np

from mc import refinterp, util, world

ID = "C02"
LEVEL = "model_checking"
RULE = (
    "every world on the lattice x every legal subgrid with a non-empty valid region x every position on a 0.25 lattice of the valid "
    "region x depths {above surface, 0, each own-cell level depth, mid-levels, bottom, below bottom}; non-trivial = position whose eight "
    "surrounding node values are not all equal (interpolation matters); lattice points distinct by construction"
)
RULE += " Beyond the lattice (chosen scenarios, not enumerated): a grid 4200 cells wide with positions off the dyadic lattice; settled particles in the state."
ASSUMPTIONS = [
    "steady fields (two identical frames) so that time interpolation (C03) cannot interfere",
    "dyadic field values: interpolation exact to 1e-12",
    "velocity add_offset is 0 (ladim documents that assumption)",
]

S0 = world.tosec("2020-01-01T00:00:00")
DT = 600
BATHY = ["flat", "slope", "bumpy"]
STRETCH = [dict(theta_s=1e-4, theta_b=0.0, hc=0.0, Vtransform=1), dict(theta_s=3.0, theta_b=0.4, hc=10.0, Vtransform=1), dict(theta_s=5.0, theta_b=0.8, hc=20.0, Vtransform=2)]
MASKS = ["sea", "island", "channel", "coast", "diag"]
STORAGE = ["f4", "f8", "i2", "i2-bare", "u-packed", "v-packed", "i2-offset", "f8-nan", "f4-scaled-nan"]  # f8-nan: land faces hold NaN in the file (post-processed files); bare: scale_factor only (no add_offset attribute); u-/v-packed: the other component is float; offset: velocity packed with a non-zero add_offset
FIELDS = ["linear", "generic", "depthlin"]


def bounds(tier, seed):
    return dict(grids=[(7, 6)] if tier == "quick" else [(7, 6), (9, 7)], N=[2, 3, 5], bathy=BATHY, stretch=3, masks=MASKS, storage=STORAGE, fields=FIELDS,
                subgrids="all legal with non-empty valid region + None + negative spelling")


def cases(tier, seed):
    out = []
    k = seed
    for (imax, jmax), N, ba, st, ma in itertools.product(bounds(tier, seed)["grids"], [2, 3, 5], BATHY, range(3), MASKS):
        if tier == "thorough":
            combos = list(itertools.product(STORAGE, FIELDS))
        else:  # round-robin pairing of storage and field, shifted by the seed
            k += 1
            combos = [(STORAGE[k % 9], FIELDS[(k // 3) % 3]), (STORAGE[(k + 4) % 9], FIELDS[(k // 3 + 1 + k % 2) % 3])]
        for sto, fi in combos:
            if fi == "depthlin" and ba != "flat":
                fi = "generic" if sto not in ("f8", "i2-offset") else "linear"
            out.append(dict(imax=imax, jmax=jmax, N=N, bathy=ba, stretch=st, mask=ma, storage=sto, field=fi))
    out.append(dict(mode="wide"))  # grid coordinates in the thousands: positions need all the digits of a double
    # drop duplicates created by the depthlin substitution
    seen, uniq = set(), []
    for c in out:
        key = tuple(sorted(c.items()))
        if key not in seen:
            seen.add(key)
            uniq.append(c)
    return uniq


def make_world(case):
    imax, jmax, N = case["imax"], case["jmax"], case["N"]
    jj, ii = np.meshgrid(np.arange(jmax), np.arange(imax), indexing="ij")
    h = dict(flat=np.full((jmax, imax), 40.0), slope=20.0 + 5.0 * ii + 3.0 * jj, bumpy=30.0 + 17.0 * ((ii * 3 + jj * 5) % 4))[case["bathy"]]
    m = np.ones((jmax, imax))
    if case["mask"] == "island":
        m[2, 3] = 0
    elif case["mask"] == "channel":
        m[1, 2:5] = 0
        m[3, 2:5] = 0
    elif case["mask"] == "coast":
        m[:, imax - 2 :] = 0
    elif case["mask"] == "diag":
        m[(ii + jj) >= imax] = 0
    w = world.World(imax=imax, jmax=jmax, N=N, h=h, mask=m, dx=800.0, **STRETCH[case["stretch"]])
    fr = w.zeros()
    ku = np.arange(N)[:, None, None]
    ju, iu = np.meshgrid(np.arange(jmax), np.arange(imax - 1) + 0.5, indexing="ij")
    jv, iv = np.meshgrid(np.arange(jmax - 1) + 0.5, np.arange(imax), indexing="ij")
    if case["field"] == "linear":
        fr["u"] = 0.125 * ku + 0.25 * iu[None] - 0.125 * ju[None]
        fr["v"] = -0.25 * ku + 0.0625 * iv[None] + 0.5 * jv[None]
    elif case["field"] == "depthlin":  # linear in depth over the flat bottom
        zr = w.z_r[:, 0, 0][:, None, None]
        c = 2.0 ** -6
        fr["u"] = np.round(zr * 64) / 64 * c * 8 + 0 * iu[None]
        fr["v"] = -np.round(zr * 64) / 64 * c * 4 + 0 * iv[None]
    else:
        jju, iiu = np.meshgrid(np.arange(jmax), np.arange(imax - 1), indexing="ij")
        jjv, iiv = np.meshgrid(np.arange(jmax - 1), np.arange(imax), indexing="ij")
        fr["u"] = ((ku * 37 + jju[None] * 11 + iiu[None] * 5) % 16) / 8.0 - 1.0
        fr["v"] = ((ku * 13 + jjv[None] * 7 + iiv[None] * 3) % 16) / 8.0 - 0.875
    fr["temp"] = 4.0 + ((ku * 7 + jj[None] * 3 + ii[None]) % 8) / 4.0
    fr["salt"] = 30.0 + ((ku * 5 + jj[None] * 7 + ii[None] * 3) % 16) / 8.0  # a second scalar of the same shape
    fr["w"] = ((ku * 3 + jj[None] * 5 + ii[None] * 7) % 8) / 512.0 - 2.0 ** -7  # the vertical velocity, read like a scalar field (own cell)
    return w, fr


def subgrids(imax, jmax):
    out = [None, [1, -1, 1, -1]]
    for i0 in range(1, imax - 1):
        for i1 in range(i0 + 3, imax):
            for j0 in range(1, jmax - 1):
                for j1 in range(j0 + 3, jmax):
                    out.append([i0, i1, j0, j1])
    return out


def particles(w, i0, i1, j0, j1):
    """Lattice positions of the valid region x depths (depths from the nearest-cell column, round-half-even like numpy)."""
    xs = np.arange(i0 + 0.75, i1 - 1.5 - 1e-9, 0.25)
    ys = np.arange(j0 + 0.75, j1 - 1.5 - 1e-9, 0.25)
    P = []
    for x in xs:
        for y in ys:
            ic, jc = int(np.round(x)), int(np.round(y))
            zr = w.z_r[:, jc, ic]
            h = w.h[jc, ic]
            depths = [-1.0, 0.0, h, h + 10.0] + (-zr).tolist() + (-(zr[1:] + zr[:-1]) / 2).tolist()
            P += [(float(x), float(y), float(z)) for z in depths]
    return P


def run_wide(case):
    """A grid 4200 cells wide, positions off the dyadic lattice: exactness on a linear field (relative 1e-9) on the whole grid and on a far subgrid."""
    from ladim.ROMS import Forcing, Grid
    from ladim.state import State
    from ladim.timekeeper import TimeKeeper

    imax, jmax, N = 4200, 6, 2
    w = world.World(imax=imax, jmax=jmax, N=N, h=np.full((jmax, imax), 40.0), mask=np.ones((jmax, imax)), dx=800.0, **STRETCH[0])
    fr = w.zeros()
    ku = np.arange(N)[:, None, None]
    ju, iu = np.meshgrid(np.arange(jmax), np.arange(imax - 1) + 0.5, indexing="ij")
    jv, iv = np.meshgrid(np.arange(jmax - 1) + 0.5, np.arange(imax), indexing="ij")
    fr["u"] = 0.125 * ku + 0.25 * iu[None] - 0.125 * ju[None]
    fr["v"] = -0.25 * ku + 0.0625 * iv[None] + 0.5 * jv[None]
    d = util.scratch("c02w")
    f = w.write_file(d / "f_0.nc", [dict(t=S0, **fr), dict(t=S0 + 10 * DT, **fr)], storage="f8")
    viols, n = [], 0
    for sg in (None, [2900, 4199, 1, 5], [1, 1700, 2, 5]):
        lim = sg or [1, imax - 1, 1, jmax - 1]
        P = [(x, y, z) for x in (3.3, 1500.3, 1697.9, 3000.7, 4100.3, 4197.1) for y in (2.8, 3.3) for z in (5.0, 20.0)
             if lim[0] + 0.5 < x < lim[1] - 1.5 and lim[2] + 0.5 < y < lim[3] - 1.5]
        try:
            grid = Grid(f, subgrid=sg)
            st = State()
            st.append(X=np.array([p[0] for p in P]), Y=np.array([p[1] for p in P]), Z=np.array([p[2] for p in P]))
            tk = TimeKeeper(start=world.iso(S0), stop=world.iso(S0 + 5 * DT), dt=DT)
            force = Forcing(dict(time=tk, grid=grid, state=st), str(d / "f_*.nc"))
            tk.update()
            force.update()
            res = [(np.array(force.variables["u"]), np.array(force.variables["v"]))] + [tuple(np.array(a) for a in force.velocity(st.X, st.Y, st.Z, fractional_step=fs)) for fs in (0.0, 0.5)]
            force.close()
        except BaseException as e:
            viols.append(util.viol("wide:exception", f"subgrid={sg}: {e!r}", case))
            continue
        for k, (x, y, z) in enumerate(P):
            ic, jc = int(np.round(x)), int(np.round(y))
            klo, khi, a = refinterp.level_pair(w.z_r[:, jc, ic], z)
            kk = a * klo + (1 - a) * khi
            eu, ev = 0.125 * kk + 0.25 * x - 0.125 * y, -0.25 * kk + 0.0625 * x + 0.5 * y
            for gu, gv in res:
                n += 1
                if (abs(gu[k] - eu) > 1e-9 * max(1, abs(eu)) or abs(gv[k] - ev) > 1e-9 * max(1, abs(ev))) and not viols:
                    viols.append(util.viol("wide:not-exact-on-linear", f"grid 4200 cells wide, subgrid={sg}, at {(x, y, z)}: ({gu[k]!r}, {gv[k]!r}) expected ({eu!r}, {ev!r})", case))
    return util.result(evals=n, nontrivial=n, viol=viols, outcomes=["wide"], states=n, transitions=n, sample=dict(case))


def run_case(case):
    if case.get("mode") == "wide":
        return run_wide(case)
    from ladim.ROMS import Forcing, Grid
    from ladim.state import State
    from ladim.timekeeper import TimeKeeper

    w, fr = make_world(case)
    d = util.scratch("c02")
    scale = dict(u=(2.0 ** -9, 0.0), v=(2.0 ** -10, 0.0), temp=(2.0 ** -6, 8.0), salt=(2.0 ** -5, 20.0))  # u and v packed differently on purpose
    # two files (the second one packed differently): the per-file scaling attributes must be honoured
    scale_b = dict(u=(2.0 ** -11, 0.0), v=(2.0 ** -12, 0.0), temp=(2.0 ** -7, 2.0), salt=(2.0 ** -6, 25.0))
    sto = case["storage"]
    if sto == "i2-offset":  # what packing tools write: an offset in the middle of the data range, for the velocity components as well
        scale.update(u=(2.0 ** -9, 0.25), v=(2.0 ** -10, -0.125))
        scale_b.update(u=(2.0 ** -11, -0.5), v=(2.0 ** -12, 0.0625))
        sto = "i2"
    frw = fr
    if sto == "f4-scaled-nan":  # single precision with a scale_factor (other units) AND NaN on the land faces
        mu, mv = w.mask[:, :-1] * w.mask[:, 1:], w.mask[:-1, :] * w.mask[1:, :]
        frw = dict(fr, u=np.where(mu[None] > 0, fr["u"], np.nan), v=np.where(mv[None] > 0, fr["v"], np.nan))
        sto = "f4-scaled"
    if sto == "f8-nan":  # the file holds NaN on every land face (and in every land cell of the scalars); what ladim must make of it is zero flow through the face
        mu, mv = w.mask[:, :-1] * w.mask[:, 1:], w.mask[:-1, :] * w.mask[1:, :]
        frw = dict(fr, u=np.where(mu[None] > 0, fr["u"], np.nan), v=np.where(mv[None] > 0, fr["v"], np.nan))
        sto = "f8"
    if sto in ("f4", "f8", "f4-scaled"):  # float files carry the ROMS fill value in the land cells of w (no particle is ever in a land cell)
        frw = dict(frw, w=np.where(w.mask[None] > 0, fr["w"], 2.0 ** 100))  # a huge value that single precision holds exactly, also after division by a scale factor
    f = w.write_file(d / "f_0.nc", [dict(t=S0, **frw)], storage=sto, scale=scale)
    w.write_file(d / "f_1.nc", [dict(t=S0 + 10 * DT, **frw)], storage=sto, scale=scale_b)
    pattern = str(d / "f_*.nc")
    viols, n, nt = [], 0, 0
    outcomes = set()

    def bad(sig, msg, sg):
        if sum(1 for v in viols if v["sig"] == sig) < 2:
            viols.append(util.viol(sig, f"{case} subgrid={sg}: {msg}", dict(case, only_subgrid=sg if sg is not None else "none")))

    # reference values on the largest (default) region, memoised per position
    memo = {}

    def ref(p):
        if p not in memo:
            x, y, z = p
            memo[p] = (refinterp.uv_candidates(w, fr["u"], fr["v"], x, y, z), refinterp.scalar_candidates(w, fr["temp"], x, y, z),
                       [refinterp.uv_nodes(w, fr["u"], fr["v"], x, y, c, z) for c in refinterp.own_cells(x, y)])
        return memo[p]

    sgs = subgrids(case["imax"], case["jmax"])
    if "only_subgrid" in case:
        sgs = [None if case["only_subgrid"] == "none" else case["only_subgrid"]]
    for sg in sgs:
        # another Grid of the same file first: a rectangle of the same SHAPE somewhere else (two nested domains of one model grid in one script);
        # what it computed for its own cells must not be served to the grid that is checked
        if sg not in (None, [1, -1, 1, -1]):
            for di, dj in ((1, 0), (-1, 0), (0, 1), (0, -1)):
                alt = [sg[0] + di, sg[1] + di, sg[2] + dj, sg[3] + dj]
                if alt[0] >= 1 and alt[2] >= 1 and alt[1] <= case["imax"] - 1 and alt[3] <= case["jmax"] - 1:
                    try:
                        Grid(f, subgrid=alt)
                    except BaseException:
                        pass
                    break
        try:
            grid = Grid(f, subgrid=sg)
        except BaseException as e:
            bad("grid:refused", f"legal subgrid refused: {e!r}", sg)
            continue
        lim = [grid.i0, grid.i1, grid.j0, grid.j1]
        exp_lim = [1, case["imax"] - 1, 1, case["jmax"] - 1] if sg in (None, [1, -1, 1, -1]) else sg
        if lim != exp_lim:
            bad("grid:limits", f"grid limits {lim} expected {exp_lim}", sg)
            continue
        P = particles(w, *exp_lim)
        X, Y, Z = (np.array([p[k] for p in P]) for k in range(3))
        st = State(instance_variables=dict(temp=float, salt=float, w=float))
        st.append(X=X, Y=Y, Z=Z, temp=0.0, salt=0.0, w=0.0)
        st["active"][::5] = False  # settled particles are not moved, but they are alive: they feel the forcing at their position like the others
        tk = TimeKeeper(start=world.iso(S0), stop=world.iso(S0 + 5 * DT), dt=DT)
        try:
            force = Forcing(dict(time=tk, grid=grid, state=st), pattern, extra_forcing=["temp", "salt", "w"])
            tk.update()
            force.update()
            u1, v1 = np.array(force.variables["u"]), np.array(force.variables["v"])
            u2, v2 = force.velocity(st.X, st.Y, st.Z)
            u3, v3 = force.velocity(st.X, st.Y, st.Z, fractional_step=0.5)
            t1, t2 = np.array(force.variables["temp"]), np.array(st["temp"])
            s1 = np.array(force.variables["salt"])
            w1 = np.array(force.variables["w"])
            phase2 = None
            if sg is None:
                # second step: every particle is moved to the neighbouring lattice position (depths unchanged), as the tracker would
                X2 = np.where(X + 0.25 < exp_lim[1] - 1.5, X + 0.25, X - 0.5)
                Y2 = np.where(Y + 0.25 < exp_lim[3] - 1.5, Y + 0.25, Y - 0.5)
                st["X"], st["Y"] = X2, Y2
                tk.update()
                force.update()
                pu, pv = force.velocity(st.X, st.Y, st.Z)
                phase2 = (X2, Y2, np.array(force.variables["u"]), np.array(force.variables["v"]), np.array(pu), np.array(pv), np.array(force.variables["temp"]))
            phase3 = None
            if sg is None:
                # surface drift: EVERY particle shallower than the top level of the deepest column, some below their own top level
                ztop = float((-w.z_r[-1]).max())
                Zs = np.full(len(P), 0.6 * ztop)
                st["Z"] = Zs
                tk.update()
                force.update()
                qu, qv = force.velocity(st.X, st.Y, st.Z)
                phase3 = (np.array(st.X), np.array(st.Y), Zs, np.array(qu), np.array(qv), np.array(force.variables["temp"]))
            force.close()
        except BaseException as e:
            bad("forcing:exception", repr(e), sg)
            continue
        outcomes.add(len(P))
        for k, p in enumerate(P):
            n += 1
            uvc, sc, nodes = ref(p)
            allnodes = nodes[0][0] + nodes[0][1]
            if max(allnodes) != min(allnodes):
                nt += 1
            for name, (gu, gv) in (("variables", (u1[k], v1[k])), ("velocity", (u2[k], v2[k])), ("velocity+0.5", (u3[k], v3[k]))):
                if not any(abs(gu - eu) <= 1e-12 * max(1, abs(eu)) and abs(gv - ev) <= 1e-12 * max(1, abs(ev)) for eu, ev in uvc):
                    bad("velocity:" + name, f"at (x,y,z)={p}: ({gu}, {gv}) expected one of {uvc}", sg)
                # convexity: within min/max of the eight surrounding (masked) node values
                if not any(min(un) - 1e-12 <= gu <= max(un) + 1e-12 and min(vn) - 1e-12 <= gv <= max(vn) + 1e-12 for un, vn in nodes):
                    bad("velocity:not-convex", f"at {p}: ({gu},{gv}) outside node range", sg)
            if not any(abs(t1[k] - e) <= 1e-12 * abs(e) for e in sc) or t1[k] != t2[k]:
                bad("scalar", f"at {p}: temp variables={t1[k]} state={t2[k]} expected one of {sc}", sg)
            sc2 = refinterp.scalar_candidates(w, fr["salt"], *p)
            if not any(abs(s1[k] - e) <= 1e-12 * abs(e) for e in sc2):
                bad("scalar:second-variable", f"at {p}: salt={s1[k]} expected one of {sc2}", sg)
            sc3 = refinterp.scalar_candidates(w, frw["w"], *p)  # the file's values: exactly on the edge to a land cell either cell may count as the own one
            if not any(abs(w1[k] - e) <= 1e-12 * max(1.0, abs(e)) for e in sc3):
                bad("scalar:w", f"at {p}: w={w1[k]} expected one of {sc3} (the value of the particle's own cell; land cells of the file hold the fill value)", sg)
            # independent exactness on linear fields away from land
            if case["field"] == "linear" and case["mask"] == "sea":
                x, y, z = p
                for ic, jc in refinterp.own_cells(x, y)[:1]:
                    klo, khi, a = refinterp.level_pair(w.z_r[:, jc, ic], z)
                    kk = a * klo + (1 - a) * khi
                    eu = 0.125 * kk + 0.25 * x - 0.125 * y
                    ev = -0.25 * kk + 0.0625 * x + 0.5 * y
                if len(refinterp.own_cells(x, y)) == 1 and (abs(u1[k] - eu) > 1e-12 or abs(v1[k] - ev) > 1e-12):
                    bad("velocity:not-exact-on-linear", f"at {p}: ({u1[k]},{v1[k]}) expected ({eu},{ev})", sg)
        if phase2 is not None:
            X2, Y2, a1, b1, a2, b2, tt = phase2
            for k in range(len(P)):
                p2 = (float(X2[k]), float(Y2[k]), P[k][2])
                n += 1
                uvc, sc, _ = ref(p2)
                for name, (gu, gv) in (("variables", (a1[k], b1[k])), ("velocity", (a2[k], b2[k]))):
                    if not any(abs(gu - eu) <= 1e-12 * max(1, abs(eu)) and abs(gv - ev) <= 1e-12 * max(1, abs(ev)) for eu, ev in uvc):
                        bad("second-step:velocity:" + name, f"after moving the particle to {p2} (depth unchanged): ({gu}, {gv}) expected one of {uvc}", sg)
                if not any(abs(tt[k] - e) <= 1e-12 * abs(e) for e in sc):
                    bad("second-step:scalar", f"after moving the particle to {p2}: temp={tt[k]} expected one of {sc}", sg)
        if phase3 is not None:
            X3, Y3, Z3, a3, b3, t3 = phase3
            for k in range(0, len(P), 3):
                p3 = (float(X3[k]), float(Y3[k]), float(Z3[k]))
                n += 1
                uvc, sc, _ = ref(p3)
                if not any(abs(a3[k] - eu) <= 1e-12 * max(1, abs(eu)) and abs(b3[k] - ev) <= 1e-12 * max(1, abs(ev)) for eu, ev in uvc):
                    bad("surface-drift:velocity", f"all particles near the surface, particle at {p3}: ({a3[k]}, {b3[k]}) expected one of {uvc}", sg)
                if not any(abs(t3[k] - e) <= 1e-12 * abs(e) for e in sc):
                    bad("surface-drift:scalar", f"all particles near the surface, particle at {p3}: temp={t3[k]} expected one of {sc}", sg)
    return util.result(evals=n, nontrivial=nt, viol=viols, outcomes=sorted(outcomes), states=n, transitions=n,
                       sample=dict(case, subgrids=len(sgs), example_position=[2.75, 2.5, 12.0]))


def warmup():
    run_case(dict(imax=7, jmax=6, N=2, bathy="flat", stretch=0, mask="sea", storage="f8", field="linear", only_subgrid="none"))
