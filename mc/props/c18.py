"""C18 - one simulation, three spellings: YAML v2, TOML v2 and legacy v1 YAML give the same run.

One abstract description is rendered by three independent renderers; configure() and the whole run are compared
three-way (normalised configuration for the shared keys, and the output files record by record).
"""

from __future__ import annotations

import itertools
import json
from pathlib import Path

import numpy as np
import yaml

from mc import drive, scriptrng, util, world

ID = "C18"
LEVEL = "model_checking"
RULE = (
    "release discrete/continuous x extra release column (none / int particle variable / time-typed release_time / lon,lat next to X,Y) x IBM variable none/one x diffusion 0/>0 x "
    "subgrid none/some x advection EF/RK4 x grid section explicit / omitted with plain forcing name / omitted with wildcard forcing name (* and a character class) x optional sections "
    "omitted / explicitly empty / blank (a YAML section header with nothing under it) x reference time given/defaulted x dt spelling; each point = 3 renderings, 3 runs; non-trivial = point where at least one "
    "optional feature (continuous, extra column, IBM variable, subgrid, omitted grid) is on; lattice points distinct by construction"
)
RULE += " Beyond the lattice (chosen scenarios, not enumerated): a v1 period of 30 h, a reference time at the epoch, an IBM option with value 0.0."
ASSUMPTIONS = ["the v1 vocabulary as translated by configure_v1 ('ordinary IMR use')", "runs with diffusion > 0 use one scripted random source for all three spellings"]

S0 = world.tosec("2020-03-01T06:00:00")
DT = 600
NSTEPS = 5


def bounds(tier, seed):
    return dict(release=["discrete", "continuous"], column=["none", "int", "time", "lonlat"], ibmvar=[False, True], diffusion=[0.0, 2.5, 4], subgrid=[None, [2, 9, 1, 7]], advection=["EF", "RK4"],
                grid=["explicit", "explicit-plugin-nomodule", "omitted-plain", "omitted-wildcard", "omitted-wildcard-class", "omitted-wildcard-negclass"], optional=["omitted", "empty", "blank"], reference=[False, True], dt=["int", "list", "iso"])


def cases(tier, seed):
    out = []
    k = seed
    for rel, col, ibm, diff, grid in itertools.product(["discrete", "continuous"], ["none", "int", "time", "lonlat"], [False, True], [0.0, 2.5, 4], ["explicit", "explicit-plugin-nomodule", "omitted-plain", "omitted-wildcard", "omitted-wildcard-class", "omitted-wildcard-negclass"]):
        others = list(itertools.product([None, [2, 9, 1, 7]], ["EF", "RK4"], ["omitted", "empty", "blank"], [False, True], ["int", "list", "iso"]))
        if tier == "quick":
            k += 1
            others = [others[(k * 5) % len(others)], others[(k * 11 + 7) % len(others)]]
        for sg, adv, opt, ref, dts in others:
            out.append(dict(release=rel, column=col, ibmvar=ibm, diffusion=diff, grid=grid, subgrid=sg, advection=adv, optional=opt, reference=ref, dt=dts))
    return out


W = world.World(imax=12, jmax=9, N=2, h=40.0, dx=800.0)
WG = world.World(imax=12, jmax=9, N=2, h=40.0, dx=640.0)  # the explicit grid file: same shape, another spacing


def write_world(d):
    ju, iu = np.meshgrid(np.arange(W.jmax), np.arange(W.imax - 1), indexing="ij")
    f = W.uniform(0.3, 0.1)
    f["u"] = f["u"] + 0.03125 * ju[None]
    g = W.uniform(0.45, -0.05)
    W.write_file(d / "f_000.nc", [dict(t=S0 - DT, **f), dict(t=S0 + 2 * DT, **g)])
    W.write_file(d / "f_001.nc", [dict(t=S0 + 4 * DT, **f), dict(t=S0 + 7 * DT, **g)])
    W.write_file(d / "single.nc", [dict(t=S0 - DT, **f), dict(t=S0 + 7 * DT, **g)])
    WG.write_file(d / "gridfile.nc", [dict(t=S0, **WG.zeros())])


def release_file(case, d):
    # "lonlat": the release file carries the geographic position next to X, Y (carried along as instance variables, not written to the output)
    cols = ["mult", "release_time", "X", "Y", "Z"] + (["farmid"] if case["column"] == "int" else []) + (["lon", "lat"] if case["column"] == "lonlat" else [])
    rows = [(2, 0, 4.3, 3.6, 5.0, 17), (1, 0, 5.7, 2.4, 10.0, 23), (1, 2, 3.6, 4.2, 2.0, 31)]
    lines = []
    for m, slot, x, y, z, fid in rows:
        vals = dict(mult=m, release_time=world.iso(S0 + slot * DT), X=x, Y=y, Z=z, farmid=fid, lon=5.0 + 0.01 * x, lat=60.0 + 0.005 * y)
        lines.append(" ".join(str(vals[c]) for c in cols))
    (d / "r.rls").write_text("\n".join(lines) + "\n")
    return cols


OUTFMT = dict(pid=("i4", "particle identifier"), X=("f8", "x"), Y=("f8", "y"), Z=("f8", "z"), age=("f8", "age"), farmid=("i4", "farm"), release_time=("f8", "release time"))


def dt_spelling(kind):
    return dict(int=DT, list=[DT // 60, "m"], iso="PT10M")[kind]


def forcing_name(case, d):
    # "omitted-wildcard-class": a wildcard written with a character class instead of * or ?
    return str(d / ("single.nc" if case["grid"] == "omitted-plain" else "f_00[0-9].nc" if case["grid"] == "omitted-wildcard-class" else "f_00[!x].nc" if case["grid"] == "omitted-wildcard-negclass" else "f_*.nc"))


def plugin_path(d):
    """A user's grid/forcing plug-in whose file name happens to contain 'ROMS' (a copy of the recording wrappers)."""
    p = Path(d) / "fjord_ROMS.py"
    if not p.exists():
        p.write_text((drive.PLUG / "rec_modules.py").read_text())
    return str(p)


def out_period(case):
    """One slice of the lattice uses an output period of more than a day (only the initial record falls into the run)."""
    return [30, "h"] if (case["dt"] == "list" and case["optional"] == "empty") else [10, "m"]


def ref_time(case):
    """Reference time: 06:00 on the day before (a non-zero time of day), in one slice the epoch itself."""
    return "1970-01-01T00:00:00" if (case["dt"] == "iso" and case["optional"] == "omitted") else world.iso(S0 - 86400)


def ibm_options(case):
    """IBM options beside the module; in one slice an option whose legal value 0.0 differs from the module's default."""
    return dict(age=True, module_state=True, **(dict(age_rate=0.0) if case["diffusion"] == 2.5 else {}))


def tz_slice(case):
    """One slice of the lattice writes start and stop as local times with a UTC offset of +02:00 (the same instants)."""
    return case["dt"] == "iso" and case["optional"] == "empty" and not case["reference"]


def offset_time(sec, native):
    import datetime as _dt

    if native:  # YAML timestamp / TOML offset date-time: read as an aware datetime
        return _dt.datetime.fromtimestamp(sec, _dt.timezone(_dt.timedelta(hours=2)))
    return world.iso(sec + 7200) + "+02:00"


def render_v2(case, d, cols, outname, native_time=False):
    """Version-2 dictionary (rendered to YAML and to TOML)."""
    c = dict(version=2)
    c["time"] = dict(start=world.iso(S0), stop=world.iso(S0 + NSTEPS * DT), dt=dt_spelling(case["dt"]))
    if tz_slice(case):
        c["time"].update(start=offset_time(S0, native_time), stop=offset_time(S0 + NSTEPS * DT, native_time))
    if case["reference"]:
        import datetime as _dt

        ref = ref_time(case)
        c["time"]["reference"] = _dt.datetime.fromisoformat(ref) if native_time else ref
    plugin_mod = case["grid"] == "explicit-plugin-nomodule"
    c["forcing"] = dict(module=plugin_path(d) if plugin_mod else "ladim.ROMS", filename=forcing_name(case, d))
    if case["grid"] in ("explicit", "explicit-plugin-nomodule"):
        c["grid"] = dict(module="ladim.ROMS", filename=str(d / "gridfile.nc"))
        if plugin_mod:
            del c["grid"]["module"]  # a grid section without module: the grid comes from the forcing module
        if case["subgrid"]:
            c["grid"]["subgrid"] = case["subgrid"]
    elif case["subgrid"]:
        c["grid"] = dict(subgrid=case["subgrid"])
    elif case["optional"] in ("empty", "blank"):
        c["grid"] = {}
    state = {}
    iv, pv = {}, {}
    if case["ibmvar"]:
        iv["age"] = "float"
    if case["column"] == "lonlat":
        iv["lon"] = iv["lat"] = "float"
    if case["column"] == "int":
        pv["farmid"] = "int"
    if case["column"] == "time":
        pv["release_time"] = "time"
    if iv:
        state["instance_variables"] = iv
        state["default_values"] = {k: 0 for k in iv}
    if pv:
        state["particle_variables"] = pv
    if state or case["optional"] in ("empty", "blank"):
        c["state"] = state
    c["tracker"] = dict(advection=case["advection"])
    if case["diffusion"]:
        c["tracker"]["diffusion"] = case["diffusion"]
    c["release"] = dict(release_file=str(d / "r.rls"), names=cols)
    if case["release"] == "continuous":
        c["release"].update(continuous=True, release_frequency=[20, "m"])
    if case["ibmvar"]:
        c["ibm"] = dict(module=drive.plug("sibm.py"), **ibm_options(case))
    elif case["column"] == "int":  # an IBM that declares no variables of its own (it only removes a particle)
        c["ibm"] = dict(module=drive.plug("sibm.py"), kills={"1": [0]})
    elif case["optional"] in ("empty", "blank"):
        c["ibm"] = {}
    if case["optional"] in ("empty", "blank"):
        c["warm_start"] = {}
    inst = ["pid", "X", "Y", "Z"] + (["age"] if case["ibmvar"] else [])
    part = [v for v in pv]
    c["output"] = dict(filename=str(d / outname), output_period=out_period(case),
                       instance_variables={v: dict(encoding=dict(datatype=OUTFMT[v][0]), attributes=dict(long_name=OUTFMT[v][1])) for v in inst})
    if part:
        c["output"]["particle_variables"] = {v: dict(encoding=dict(datatype=OUTFMT[v][0]), attributes=(dict(long_name=OUTFMT[v][1], units="seconds since reference_time") if v == "release_time" else dict(long_name=OUTFMT[v][1]))) for v in part}
    return c


def render_v1(case, d, cols, outname):
    """Legacy version-1 dictionary, written from the v1 documentation / examples (not from configure_v1)."""
    c = {}
    c["time_control"] = dict(start_time=world.iso(S0), stop_time=world.iso(S0 + NSTEPS * DT))
    if tz_slice(case):  # the legacy file quotes the times (strings with the offset)
        c["time_control"] = dict(start_time=offset_time(S0, False), stop_time=offset_time(S0 + NSTEPS * DT, False))
    if case["reference"]:
        c["time_control"]["reference_time"] = ref_time(case)
    c["files"] = dict(particle_release_file=str(d / "r.rls"), output_file=str(d / outname))
    if case["dt"] == "list":  # old-style lines left in the `files` section while `gridforce` names the files that count
        c["files"]["input_file"] = str(d / "decoy_0.nc")
        if case["grid"].startswith("explicit"):
            c["files"]["gridfile"] = str(d / "decoy_0.nc")
    # the ROMS module under its version-1 name (as in examples/line/ladim1.yaml) in one half of the lattice
    v1mod = "ladim1.gridforce.ROMS" if case["advection"] == "RK4" else "ladim.ROMS"
    c["gridforce"] = dict(module=plugin_path(d) if case["grid"] == "explicit-plugin-nomodule" else v1mod, input_file=forcing_name(case, d))
    if case["grid"] in ("explicit", "explicit-plugin-nomodule"):
        c["gridforce"]["gridfile"] = str(d / "gridfile.nc")
    if case["subgrid"]:
        c["gridforce"]["subgrid"] = case["subgrid"]
    pr = dict(variables=cols)
    if case["release"] == "continuous":
        pr.update(release_type="continuous", release_frequency=[20, "m"])
    elif case["ibmvar"]:
        pr.update(release_type="discrete", release_frequency=[20, "m"])  # left over from an earlier set-up: a discrete release ignores it
    elif case["column"] == "int":
        pr.update(release_frequency=[20, "m"])  # no release_type at all: discrete
    pvars = []
    if case["column"] == "int":
        pr["farmid"] = "int"
        pvars.append("farmid")
    if case["column"] == "time":
        pr["release_time"] = "time"
        pvars.append("release_time")
    if pvars:
        pr["particle_variables"] = pvars
    c["particle_release"] = pr
    if case["ibmvar"]:
        c["ibm"] = dict(ibm_module=drive.plug("sibm.py"), variables=["age"], **ibm_options(case))
    elif case["column"] == "int":
        c["ibm"] = dict(ibm_module=drive.plug("sibm.py"), kills={"1": [0]})
    inst = ["pid", "X", "Y", "Z"] + (["age"] if case["ibmvar"] else [])
    ov = dict(outper=out_period(case), format="NETCDF4", instance=inst, particle=pvars)
    shared = dict(ncformat="f8", long_name="horizontal position")  # X and Y share ONE definition: yaml.safe_dump writes an anchor and an alias
    for v in inst + pvars:
        ov[v] = shared if v in ("X", "Y") else dict(ncformat=OUTFMT[v][0], long_name=OUTFMT[v][1])
        if v == "release_time":
            ov[v]["units"] = "seconds since reference_time"
    c["output_variables"] = ov
    c["numerics"] = dict(dt=dt_spelling(case["dt"]), advection=case["advection"], diffusion=case["diffusion"])
    return c


def to_toml(c):
    """Minimal TOML writer for nested dictionaries of scalars / lists (tables for dictionaries)."""
    lines = []

    def scalar(v):
        if isinstance(v, bool):
            return "true" if v else "false"
        if hasattr(v, "isoformat"):
            return v.isoformat()  # native TOML local date-time
        if isinstance(v, (int, float)):
            return repr(v)
        if isinstance(v, str):
            return json.dumps(v)
        if isinstance(v, list):
            return "[" + ", ".join(scalar(x) for x in v) + "]"
        raise util.HarnessError(f"cannot render {v!r} as TOML")

    def table(prefix, dct):
        simple = {k: v for k, v in dct.items() if not isinstance(v, dict)}
        nested = {k: v for k, v in dct.items() if isinstance(v, dict)}
        if prefix:
            lines.append(f"[{prefix}]")
        for k, v in simple.items():
            lines.append(f"{k} = {scalar(v)}")
        lines.append("")
        for k, v in nested.items():
            table(f"{prefix}.{k}" if prefix else k, v)

    table("", c)
    return "\n".join(lines) + "\n"


Scripted = scriptrng.Pattern  # deterministic values along the stream of drawn scalars (the same for every rendering)


def norm_config(cfg):
    """Projection of configure()'s result onto the keys all three vocabularies share."""
    from ladim.timekeeper import normalize_period

    def t(x):
        return str(np.datetime64(x, "s"))

    out = dict(
        start=t(cfg["time"]["start"]), stop=t(cfg["time"]["stop"]), dt=int(normalize_period(cfg["time"]["dt"]) / np.timedelta64(1, "s")),
        reference=t(cfg["time"]["reference"]) if cfg["time"].get("reference") else None,
        advection=cfg["tracker"].get("advection"), diffusion=float(cfg["tracker"].get("diffusion", 0.0) or 0.0),
        grid_module=cfg["grid"].get("module"), grid_file=str(cfg["grid"].get("filename")), subgrid=list(cfg["grid"]["subgrid"]) if cfg["grid"].get("subgrid") else None,
        forcing_module=cfg["forcing"].get("module"), forcing_file=str(cfg["forcing"].get("filename")),
        release_file=str(cfg["release"]["release_file"]), names=list(cfg["release"].get("names") or []), continuous=bool(cfg["release"].get("continuous", False)),
        frequency=int(normalize_period(cfg["release"]["release_frequency"]) / np.timedelta64(1, "s")) if cfg["release"].get("continuous") else None,
        instance_variables=sorted((cfg.get("state") or {}).get("instance_variables", {}) or {}), particle_variables=sorted((cfg.get("state") or {}).get("particle_variables", {}) or {}),
        out_period=int(normalize_period(cfg["output"]["output_period"]) / np.timedelta64(1, "s")), out_instance=sorted(cfg["output"]["instance_variables"]),
        out_particle=sorted(cfg["output"].get("particle_variables") or {}), ibm_module=(cfg.get("ibm") or {}).get("module"), warm=bool(cfg.get("warm_start")),
    )
    return out


def run_case(case):
    viols = []

    def bad(sig, msg):
        if not any(v["sig"] == sig for v in viols):
            viols.append(util.viol(sig, f"{case}: {msg}", case))

    d = util.scratch("c18")
    write_world(d)
    cols = release_file(case, d)
    files = {}
    native = True  # the v2 files carry the reference time as a native timestamp (YAML timestamp, TOML local date-time), the v1 file as a string
    v2 = render_v2(case, d, cols, "out_yaml2.nc", native_time=native)
    if case["optional"] == "blank":  # YAML only: a section header with nothing under it (`ibm:`) is read as None; TOML has no such thing, its table stays empty
        for sec in ("grid", "state", "ibm", "warm_start"):
            if v2.get(sec) == {}:
                v2[sec] = None
    (d / "c_yaml2.yaml").write_text(yaml.safe_dump(v2, sort_keys=False))
    files["yaml2"] = d / "c_yaml2.yaml"
    (d / "c_toml2.toml").write_text(to_toml(render_v2(case, d, cols, "out_toml2.nc", native_time=native)))
    files["toml2"] = d / "c_toml2.toml"
    (d / "c_yaml1.yaml").write_text(yaml.safe_dump(render_v1(case, d, cols, "out_yaml1.nc"), sort_keys=False))
    files["yaml1"] = d / "c_yaml1.yaml"
    # adversarial call history: another set-up (different grid and forcing files, optional sections omitted) is configured first in
    # the same process, in both v2 spellings; nothing of it may leak into the runs below
    try:
        from ladim.configure import configure as _configure

        dec = world.World(imax=9, jmax=8, N=2, h=25.0, dx=500.0)
        dec.write_file(d / "decoy_0.nc", [dict(t=S0 - DT, **dec.zeros()), dict(t=S0 + 9 * DT, **dec.zeros())])
        dconf = dict(version=2, time=dict(start=world.iso(S0), stop=world.iso(S0 + 2 * DT), dt=DT), forcing=dict(module="ladim.ROMS", filename=str(d / "decoy_*.nc")),
                     tracker=dict(advection="EF"), release=dict(release_file=str(d / "r.rls"), names=cols),
                     output=dict(filename=str(d / "decoy_out.nc"), output_period=DT, instance_variables=dict(pid=dict(encoding=dict(datatype="i4"), attributes=dict(long_name="pid")))))
        (d / "decoy.yaml").write_text(yaml.safe_dump(dconf, sort_keys=False))
        (d / "decoy.toml").write_text(to_toml(dconf))
        _configure(str(d / "decoy.yaml"))
        _configure(str(d / "decoy.toml"))
        if case["grid"] == "omitted-wildcard":
            # the very pattern of the real run, configured while the file that sorts first is still missing
            hidden = d / "f_000.nc.hidden"
            (d / "f_000.nc").rename(hidden)
            try:
                dconf["forcing"]["filename"] = str(d / "f_*.nc")
                (d / "decoy2.yaml").write_text(yaml.safe_dump(dconf, sort_keys=False))
                (d / "decoy2.toml").write_text(to_toml(dconf))
                _configure(str(d / "decoy2.yaml"))
                _configure(str(d / "decoy2.toml"))
            finally:
                hidden.rename(d / "f_000.nc")
    except BaseException as e:
        bad("crash:decoy", f"configure() of a plain valid v2 file failed: {e!r}")
    results, configs = {}, {}
    import sys as _sys
    import types as _types

    _reg = _sys.modules.setdefault("verif_reclog", _types.ModuleType("verif_reclog"))
    for name, path in files.items():
        _reg.events = []
        try:
            if case["diffusion"] > 0:
                _, cfg = drive.run_config_file(path, rng=Scripted())
            else:
                from ladim.configure import configure

                cfg = configure(str(path))  # also exercised below through main()
                drive.run_main_file(path)
            configs[name] = norm_config(cfg)
            results[name] = world.read_output([d / f"out_{name}.nc"])
            if case["grid"] == "explicit-plugin-nomodule":
                mods_ran = {e["mod"] for e in _reg.events if e.get("meth") == "init"}
                if not {"grid", "forcing"} <= mods_ran:
                    bad(f"plugin-module:{name}", f"{name} spelling: the plug-in module given for the forcing (and so for the grid) did not provide both: initialised {sorted(mods_ran)}")
        except drive.RunFailed as e:
            bad(f"crash:{name}", f"{name} spelling: {e}")
        except SystemExit as e:
            bad(f"crash:{name}", f"{name} spelling: configure() exited with {e.code!r}")
        except Exception as e:
            bad(f"crash:{name}", f"{name} spelling: {e!r}")
    ref = "yaml2"
    for name in ("toml2", "yaml1"):
        if ref not in results or name not in results:
            continue
        a, b = configs[ref], configs[name]
        diff = {k: (a[k], b[k]) for k in a if a[k] != b[k] and not (k in ("release_file",) )}
        diff = {k: v for k, v in diff.items() if k not in ("grid_file",) or Path(v[0]).name != Path(v[1]).name}
        if diff:
            bad(f"config:{name}", f"configure() of the {name} spelling differs from yaml2 on {diff}")
        ua, ub = [f["units"] for f in results[ref]["files"]], [f["units"] for f in results[name]["files"]]
        if ua != ub:
            bad(f"output:{name}:time-units", f"time units {ub} vs yaml2 {ua}")
        pu_a, pu_b = results[ref]["files"][0]["particle_units"], results[name]["files"][0]["particle_units"]
        if pu_a != pu_b:
            bad(f"output:{name}:time-units", f"particle variable units {pu_b} vs yaml2 {pu_a}")
        ra, rb = results[ref]["records"], results[name]["records"]
        if [r["time"] for r in ra] != [r["time"] for r in rb]:
            bad(f"output:{name}:times", f"record times {[r['time'] - S0 for r in rb]} vs yaml2 {[r['time'] - S0 for r in ra]}")
            continue
        for k, (x, y) in enumerate(zip(ra, rb)):
            if sorted(x["vars"]) != sorted(y["vars"]):
                bad(f"output:{name}:variables", f"record variables {sorted(y['vars'])} vs yaml2 {sorted(x['vars'])}")
                break
            for v in x["vars"]:
                if not np.array_equal(np.asarray(x["vars"][v]), np.asarray(y["vars"][v])):
                    bad(f"output:{name}:values", f"record {k} {v}={np.asarray(y['vars'][v]).tolist()} vs yaml2 {np.asarray(x['vars'][v]).tolist()}")
                    break
        pa, pb = results[ref]["files"][0]["particle"], results[name]["files"][0]["particle"]
        if sorted(pa) != sorted(pb) or any(not np.array_equal(np.asarray(pa[v]), np.asarray(pb[v])) for v in pa if v in pb):
            bad(f"output:{name}:particle-variables", f"particle variables { {v: np.asarray(a_).tolist() for v, a_ in pb.items()} } vs yaml2 { {v: np.asarray(a_).tolist() for v, a_ in pa.items()} }")
    # the run itself must be a real one
    if ref in results:
        recs = results[ref]["records"]
        if len(recs) != (NSTEPS if out_period(case) == [10, "m"] else 1) or recs[-1]["count"] < 3:
            bad("vacuous", f"reference run wrote {len(recs)} records, last with {recs[-1]['count'] if recs else 0} particles")
        if ref in configs:
            exp_grid = "gridfile.nc" if case["grid"].startswith("explicit") else "f_000.nc" if case["grid"] != "omitted-plain" else "single.nc"
            if Path(configs[ref]["grid_file"]).name != exp_grid:
                bad("config:grid-default", f"grid file {configs[ref]['grid_file']} expected {exp_grid} (first forcing file)")
    nt = int(case["release"] == "continuous" or case["column"] != "none" or case["ibmvar"] or case["subgrid"] is not None or case["grid"] != "explicit")
    return util.result(evals=3, nontrivial=nt, viol=viols, outcomes=[[len(results), case["grid"]]], states=3 * NSTEPS, transitions=3 * NSTEPS, sample=dict(case))


def warmup():
    run_case(dict(release="discrete", column="none", ibmvar=False, diffusion=0.0, grid="explicit", subgrid=None, advection="RK4", optional="omitted", reference=False, dt="int"))
