"""C12 - vertical grid ordered inside the water column; level lookup consistent.

Parameter lattice on the real s_stretch / sdepth / z2s and on Grid objects built from a file
and from Vinfo; oracle = the statement's invariants (+ agreement with the ROMS formulas written
independently in mc/world.py).
"""

from __future__ import annotations

import itertools

import numpy as np

from mc import util, world

ID = "C12"
LEVEL = "model_checking"
RULE = (
    "every (N, Vstretching, theta_s, theta_b, Vtransform, hc, h) on the lattice (hc<=h for Vtransform 1) and every particle depth in "
    "{-5, 0, each level depth, each mid-level, between top level and surface, h, h+100}; non-trivial = N>=2 (a bracketing pair exists); "
    "lattice points distinct by construction"
)
RULE += " Beyond the lattice (chosen scenarios, not enumerated): one lookup call with 1100 particles in scrambled order against per-column calls."
ASSUMPTIONS = ["parameters on the lattice only", "zeta = 0 (ladim ignores the free surface)"]

THS = [1e-8, 1e-5, 1e-3, 0.01, 0.5, 1.0, 3.0, 5.0, 7.0, 10.0]  # theta_s in (0, 10]: also very weak surface stretching
THB = {1: [0.0, 0.1, 0.5, 1.0], 2: [0.01, 0.5, 1.0, 2.0, 4.0], 4: [0.01, 0.5, 1.0, 2.0, 4.0]}
HC = [1.0, 5.0, 20.0, 250.0]
HS = [1.0, 2.0, 10.0, 50.0, 300.0, 1000.0, 5000.0]


def bounds(tier, seed):
    if tier == "quick":
        ns = sorted(set([1, 2, 3, 4, 5, 8, 13, 21, 35, 60] + [6 + (seed * 7 + k * 11) % 54 for k in range(4)]))
    else:
        ns = list(range(1, 61))
    return dict(N=ns, Vstretching=[1, 2, 4], theta_s=THS, theta_b=THB, hc=HC, h=HS, Vtransform=[1, 2])


def cases(tier, seed):
    b = bounds(tier, seed)
    out = [dict(mode="lattice", N=n, Vs=vs) for n in b["N"] for vs in b["Vstretching"]]
    for vs, vt, n in itertools.product([1, 2, 4], [1, 2], [1, 2, 5] if tier == "quick" else [1, 2, 3, 5, 10, 30]):
        out.append(dict(mode="grid", N=n, Vs=vs, Vt=vt))
    return out


def check_lookup(z_r, h, N, tag, case, bad):
    """z_r[N, nh]; particle depths per column; returns number of lookups."""
    from ladim.ROMS import z2s

    nh = z_r.shape[1]
    n = 0
    single = []  # (X, Z, K, A) of the per-column calls
    for c in range(nh):
        zr = z_r[:, c]
        depths = [-5.0, 0.0, h[c], h[c] + 100.0, 0.5 * (-zr[-1])] + (-zr).tolist() + (-(zr[1:] + zr[:-1]) / 2).tolist()
        Z = np.array(depths)
        X = np.full(len(Z), float(c))
        Y = np.zeros(len(Z))
        try:
            K, A = z2s(z_r[:, None, :], X, Y, Z)
        except Exception as e:
            bad("lookup:exception" + (":N=1" if N == 1 else ""), f"{tag} h={h[c]}: z2s raised {e!r}")
            continue
        n += len(Z)
        K = np.asarray(K)
        A = np.asarray(A)
        single.append((X, Z, K.copy(), A.copy()))
        inrange = (K >= 1) & (K <= N - 1)
        if not inrange.all():
            i = int(np.argmin(inrange))
            bad("lookup:index-out-of-range" + (":N=1" if N == 1 else ""), f"{tag} h={h[c]} depth={Z[i]}: K={K[i]} not in 1..{N - 1} (pair K-1,K must lie inside the {N} levels)")
            continue
        if ((A < 0) | (A > 1)).any():
            i = int(np.argmax((A < 0) | (A > 1)))
            bad("lookup:weight", f"{tag} h={h[c]} depth={Z[i]}: weight {A[i]} outside [0,1]")
            continue
        got = A * zr[K - 1] + (1 - A) * zr[K]
        exp = np.clip(-Z, zr[0], zr[-1])
        err = np.abs(got - exp)
        if (err > 1e-9 * max(1.0, h[c])).any():
            i = int(np.argmax(err))
            bad("lookup:depth", f"{tag} h={h[c]} depth={Z[i]}: weighted level depth {got[i]} expected {exp[i]} (K={K[i]}, A={A[i]})")
    # the same lookups as ONE call with more than a thousand particles, columns interleaved (not sorted by cell): same answer per particle
    if len(single) >= 2 and N > 1:
        Xa, Za, Ka, Aa = (np.concatenate([t[k] for t in single]) for k in range(4))
        order = np.argsort((np.arange(len(Xa)) * 7919) % len(Xa), kind="stable")  # a fixed scramble
        reps = max(1, -(-1100 // len(Xa)))
        idx = np.tile(order, reps)
        try:
            Kb, Ab = z2s(z_r[:, None, :], Xa[idx], np.zeros(len(idx)), Za[idx])
            Kb, Ab = np.asarray(Kb), np.asarray(Ab)
            if Kb.shape != Ka[idx].shape or not (np.array_equal(Kb, Ka[idx]) and np.array_equal(Ab, Aa[idx])):
                i = int(np.argmax((Kb != Ka[idx]) | (Ab != Aa[idx]))) if Kb.shape == Ka[idx].shape else 0
                bad("lookup:bulk-call-differs", f"{tag}: one z2s call with {len(idx)} particles gives (K, A)=({Kb[i] if Kb.shape == Ka[idx].shape else Kb.shape}, {Ab[i] if Kb.shape == Ka[idx].shape else ''}) for the particle "
                                                f"at column {Xa[idx][i]} depth {Za[idx][i]}, the call for that column alone gave ({Ka[idx][i]}, {Aa[idx][i]})")
        except Exception as e:
            bad("lookup:exception", f"{tag}: bulk z2s call raised {e!r}")
        n += len(idx)
    return n


def check_levels(z_r, z_w, h, tag, bad, tol=1e-9):
    """z_r[N, nh], z_w[N+1, nh]."""
    hh = np.asarray(h)
    scale = np.maximum(1.0, hh)
    if (np.diff(z_r, axis=0) <= 0).any() or (np.diff(z_w, axis=0) <= 0).any():
        bad("levels:not-increasing", f"{tag}: level depths not strictly increasing bottom->surface")
    if (z_r < -hh - tol * scale).any() or (z_r > tol * scale).any():
        bad("levels:outside-column", f"{tag}: rho-level outside [-h, 0]")
    if (np.abs(z_w[0] + hh) > tol * scale).any():
        bad("levels:w-bottom", f"{tag}: z_w[0]={z_w[0].tolist()} expected {-hh}")
    if (np.abs(z_w[-1]) > tol * scale).any():
        bad("levels:w-surface", f"{tag}: z_w[N]={z_w[-1].tolist()} expected 0")
    if not ((z_w[:-1] < z_r) & (z_r < z_w[1:])).all():
        bad("levels:interleave", f"{tag}: w-levels do not interleave with rho-levels")


def run_lattice(case):
    from ladim.ROMS import s_stretch, sdepth

    N, Vs = case["N"], case["Vs"]
    viols, n, nt = [], 0, 0
    outcomes = set()

    def bad(sig, msg):
        if sum(1 for v in viols if v["sig"] == sig) < 2:
            viols.append(util.viol(sig, msg, dict(case, only=cur)))

    only = case.get("only")
    # adversarial call history inside the case: set-ups whose level counts differ by one, in both staggers (a memo keyed too coarsely shows up)
    for M, stg in ((N + 1, "rho"), (max(N - 1, 1), "w"), (N, "w"), (N + 1, "rho"), (N, "rho")):
        try:
            c_ = s_stretch(M, 3.0, 0.4, stagger=stg, Vstretching=1)
            sdepth(np.array([50.0, 80.0]), 10.0, c_, stagger=stg, Vtransform=2)
        except Exception:
            pass
    for ths, thb in itertools.product(THS, THB[Vs]):
        try:
            Cr = s_stretch(N, ths, thb, stagger="rho", Vstretching=Vs)
            Cw = s_stretch(N, ths, thb, stagger="w", Vstretching=Vs)
        except Exception as e:
            cur = [ths, thb, None, None]
            bad("stretch:exception", f"N={N} Vs={Vs} theta_s={ths} theta_b={thb}: {e!r}")
            continue
        cur = [ths, thb, None, None]
        tag0 = f"N={N} Vstretching={Vs} theta_s={ths} theta_b={thb}"
        n += 1
        if len(Cr) != N or len(Cw) != N + 1:
            bad("stretch:shape", f"{tag0}: len(Cs_r)={len(Cr)} len(Cs_w)={len(Cw)}")
            continue
        if abs(Cw[0] + 1) > 1e-12 or abs(Cw[-1]) > 1e-12:
            bad("stretch:endpoints", f"{tag0}: Cs_w runs {Cw[0]}..{Cw[-1]} expected -1..0")
        if (np.diff(Cw) <= 0).any() or (np.diff(Cr) <= 0).any():
            bad("stretch:not-monotone", f"{tag0}: stretching curve not strictly increasing")
        if not ((Cw[:-1] < Cr) & (Cr < Cw[1:])).all():
            bad("stretch:interleave", f"{tag0}: Cs_r not between consecutive Cs_w")
        Sr, Crr = world.ref_stretch(N, ths, thb, "rho", Vs)
        Sw, Cwr = world.ref_stretch(N, ths, thb, "w", Vs)
        if np.abs(Cr - Crr).max() > 1e-9 or np.abs(Cw - Cwr).max() > 1e-9:  # cancellation in (1-cosh)/(cosh-1) at theta=0.01 costs ~1e-11
            bad("stretch:formula", f"{tag0}: differs from the ROMS formula by {max(np.abs(Cr - Crr).max(), np.abs(Cw - Cwr).max())}")
        for Vt, hc in itertools.product([1, 2], HC):
            hs = np.array([h for h in HS if (Vt == 2 or hc <= h)])
            if only and only[2:] != [Vt, hc]:
                continue
            cur = [ths, thb, Vt, hc]
            tag = f"{tag0} Vtransform={Vt} hc={hc}"
            try:
                z_r = sdepth(hs, hc, Cr, stagger="rho", Vtransform=Vt)
                z_w = sdepth(hs, hc, Cw, stagger="w", Vtransform=Vt)
            except Exception as e:
                bad("levels:exception", f"{tag}: {e!r}")
                continue
            n += len(hs)
            if N >= 2:
                nt += len(hs)
            if z_r.shape != (N, len(hs)) or z_w.shape != (N + 1, len(hs)):
                bad("levels:shape", f"{tag}: shapes {z_r.shape} {z_w.shape}")
                continue
            check_levels(z_r, z_w, hs, tag, bad)
            zr_ref = world.ref_zlevels(hs, hc, Sr, Crr, Vt)
            if np.abs(z_r - zr_ref).max() > 1e-9 * hs.max():
                bad("levels:formula", f"{tag}: z_r differs from the ROMS formula by {np.abs(z_r - zr_ref).max()}")
            n += check_lookup(z_r, hs, N, tag, case, bad)
            outcomes.add((Vt, N >= 2))
    return util.result(evals=n, nontrivial=nt, viol=viols, outcomes=[list(o) for o in outcomes], states=n, transitions=n,
                       sample=dict(N=N, Vstretching=Vs, theta_s=THS[5], theta_b=THB[Vs][1], Vtransform=2, hc=HC[1], h=HS[3]))


def run_grid(case):
    """Grid objects built from a file and from Vinfo on a variable bathymetry."""
    from ladim.ROMS import Grid

    N, Vs, Vt = case["N"], case["Vs"], case["Vt"]
    viols, n = [], 0

    def bad(sig, msg):
        if sum(1 for v in viols if v["sig"] == sig) < 2:
            viols.append(util.viol(sig, msg, case))

    d = util.scratch("c12")
    h = np.array([[30.0 + 7 * i + 13 * j + 40 * ((i * j) % 3) for i in range(5)] for j in range(4)])
    hc = 20.0
    # sdepth on 2-D bathymetry given as a transposed view / Fortran-ordered array / strided view: same columns as the C-ordered copy
    from ladim.ROMS import s_stretch as _ss, sdepth as _sd

    Cr_ = _ss(N, 3.0, 0.4 if Vs == 1 else 1.5, stagger="rho", Vstretching=Vs)
    Cw_ = _ss(N, 3.0, 0.4 if Vs == 1 else 1.5, stagger="w", Vstretching=Vs)
    for name_, H2 in (("transposed", h.T), ("fortran", np.asfortranarray(h)), ("strided", h[::2, ::-1])):
        try:
            a = _sd(H2, hc, Cw_, stagger="w", Vtransform=Vt)
            b = _sd(np.ascontiguousarray(H2), hc, Cw_, stagger="w", Vtransform=Vt)
            r_ = _sd(H2, hc, Cr_, stagger="rho", Vtransform=Vt)
        except Exception as e:
            bad("levels:exception", f"sdepth on a {name_} bathymetry array: {e!r}")
            continue
        n += 1
        if a.shape != (N + 1, *H2.shape) or not np.array_equal(a, b) or np.abs(a[0] + H2).max() > 1e-9 * H2.max() or np.abs(a[-1]).max() > 1e-9 * H2.max():
            bad("levels:memory-layout", f"sdepth on a {name_} bathymetry array (N={N} Vt={Vt}): z_w[0] != -h or differs from the result for the C-ordered copy")
        elif (r_ < -H2 - 1e-9 * H2.max()).any() or (r_ > 1e-9).any():
            bad("levels:memory-layout", f"sdepth on a {name_} bathymetry array: rho-levels outside [-h, 0]")
    # integer-typed bathymetry (a Python int, an integer array): same levels as for the float values
    for name_, Hi in (("python int", 100), ("int32 array", np.array([50, 100, 300], dtype=np.int32))):
        try:
            a = _sd(Hi, hc, Cw_, stagger="w", Vtransform=Vt)
            b = _sd(np.asarray(Hi, dtype=float), hc, Cw_, stagger="w", Vtransform=Vt)
        except Exception as e:
            bad("levels:exception", f"sdepth with {name_} bathymetry: {e!r}")
            continue
        n += 1
        if not np.allclose(np.asarray(a, float), b, rtol=0, atol=1e-9):
            bad("levels:integer-bathymetry", f"sdepth with {name_} bathymetry (N={N} Vt={Vt}) differs from the float result by {np.abs(np.asarray(a, float) - b).max()}")
    kept = []
    for ths, thb in [(1.0, 0.5), (5.0, 0.1 if Vs == 1 else 2.0), (7.0, 1.0)]:
        w = world.World(imax=5, jmax=4, N=N, h=h, hc=hc, theta_s=ths, theta_b=thb, Vtransform=Vt, Vstretching=Vs)
        f = w.write_file(d / f"g_{ths}.nc", [dict(t=0, **w.zeros())])
        for how in ("file", "vinfo", "vinfo-hc0", "vinfo-hc0.0"):
            tag = f"Grid({how}) N={N} Vs={Vs} Vt={Vt} theta_s={ths} theta_b={thb}"
            hc_used = hc
            try:
                if how == "file":
                    g = Grid(f)
                elif how == "vinfo":
                    vinfo = dict(N=N, hc=hc, theta_s=ths, theta_b=thb, Vstretching=Vs, Vtransform=Vt)
                    Grid(f, Vinfo=vinfo, subgrid=[1, 3, 1, 3])  # the same configuration entry serves a nested domain first: it must come out of that unchanged
                    g = Grid(f, Vinfo=vinfo)
                else:  # the pure sigma coordinate hc = 0 (as an int and as a float) given explicitly, while the file says hc = 20
                    hc_used = 0.0
                    g = Grid(f, Vinfo=dict(N=N, hc=0 if how == "vinfo-hc0" else 0.0, theta_s=ths, theta_b=thb, Vstretching=Vs, Vtransform=Vt))
            except BaseException as e:
                bad("grid:exception", f"{tag}: {e!r}")
                continue
            n += 1
            H = h[1:-1, 1:-1]
            if np.asarray(g.z_r).shape != (N, *H.shape) or np.asarray(g.z_w).shape != (N + 1, *H.shape) or len(g.Cs_r) != N or len(g.Cs_w) != N + 1:
                bad("levels:shape", f"{tag}: z_r {np.asarray(g.z_r).shape}, z_w {np.asarray(g.z_w).shape}, Cs_r {len(g.Cs_r)}, Cs_w {len(g.Cs_w)} for N={N} on a {H.shape} rectangle")
                continue
            zr = np.asarray(g.z_r).reshape(N, -1)
            zw = np.asarray(g.z_w).reshape(N + 1, -1)
            check_levels(zr, zw, H.ravel(), tag, bad)
            Cw, Cr = np.asarray(g.Cs_w), np.asarray(g.Cs_r)
            if abs(Cw[0] + 1) > 1e-12 or abs(Cw[-1]) > 1e-12 or (np.diff(Cw) <= 0).any() or (np.diff(Cr) <= 0).any():
                bad("stretch:not-monotone", f"{tag}: Cs curves {Cw.tolist()}")
            ref = world.ref_zlevels(H, hc_used, w.S_r, w.Cs_r, Vt).reshape(N, -1)
            if np.abs(zr - ref).max() > 1e-9 * H.max():
                bad("levels:formula", f"{tag}: z_r differs from ROMS formula by {np.abs(zr - ref).max()}")
            n += check_lookup(zr, H.ravel(), N, tag, case, bad)
            kept.append((tag, g, ref, H))
    # every Grid built above is still in use (an ensemble over vertical set-ups on one grid shape): its levels must still be its own
    for tag, g, ref, H in kept:
        n += 1
        zr = np.asarray(g.z_r).reshape(N, -1)
        zw = np.asarray(g.z_w).reshape(N + 1, -1)
        if np.abs(zr - ref).max() > 1e-9 * H.max() or np.abs(zw[0] + H.ravel()).max() > 1e-9 * H.max() or np.abs(zw[-1]).max() > 1e-9 * H.max():
            bad("levels:changed-by-a-later-grid", f"{tag}: after other Grid objects of the same shape were built, this grid's z_r differs from its own levels by {np.abs(zr - ref).max()} "
                                                  f"and z_w[0] + h by {np.abs(zw[0] + H.ravel()).max()}")
    return util.result(evals=n, nontrivial=n if N >= 2 else 0, viol=viols, outcomes=[["grid", N >= 2]], states=n, transitions=n, sample=dict(case))


def warmup():
    from ladim.ROMS import z2s

    z = np.array([[-3.0], [-1.0]])[:, None, :]
    z2s(z, np.zeros(2), np.zeros(2), np.array([0.5, 2.0]))


def run_case(case):
    if case["mode"] == "lattice":
        return run_lattice(case)
    if case["mode"] == "grid":
        return run_grid(case)
    raise util.HarnessError(case)
