"""C13 - clock arithmetic and period spellings.

Lattice enumeration on the real TimeKeeper / normalize_period / duration2iso against
integer-second arithmetic and a hand-written reference grammar.
"""

from __future__ import annotations

import datetime
import itertools
import sys

import numpy as np

from mc import util

ID = "C13"
LEVEL = "model_checking"
RULE = (
    "clock: every (start, duration, dt, direction, reference) on the lattice, the running clock driven by "
    "update() for every step, conversions at every step in -3..Nsteps+3, times given as ISO string / numpy datetime64 / datetime instance in rotation, "
    "reset() after the last update followed by three more updates; spellings: every spelling of each "
    "duration in the set and every string over the alphabet up to the length bound, decided by a reference grammar. "
    "conversions also for every dt of 1..240 s and the usual longer ones x steps -64..64 (exact step times and mid-interval times); period verdicts under every ordered pair of calls in a fresh interpreter; "
    "non-trivial clock case = Nsteps>=2 (the clock actually advances) ; non-trivial string = accepted by the reference grammar "
    "or sharing a prefix 'PT' with it; distinct by construction (lattice points)"
)
ASSUMPTIONS = ["times on a one-second lattice", "numpy datetime64 arithmetic trusted"]

STARTS = [
    "2020-02-28T23:59:50",
    "2020-02-29T00:00:00",
    "2021-12-31T23:59:58",
    "1999-01-01T00:00:00",
    "2020-06-15T12:30:00",
    "1970-01-01T00:00:00",
    "2038-01-19T03:14:00",
    "2020-03-01",
]
EPOCH = datetime.datetime(1900, 1, 1)


def bounds(tier, seed):
    if tier == "quick":
        return dict(starts=3 + 1, durations="0..24 +{3600,86400,90061}", dts=[1, 2, 3, 5, 7, 60], strlen=4)
    return dict(starts=len(STARTS), durations="0..40 +{3600,86400,90061,604800}", dts=[1, 2, 3, 5, 7, 60, 600, 3600], strlen=5)


def cases(tier, seed):
    b = bounds(tier, seed)
    out = []
    starts = STARTS if tier == "thorough" else STARTS[:3] + [STARTS[3 + seed % 5]]
    durs = list(range(0, 41 if tier == "thorough" else 25)) + [3600, 86400, 90061] + ([604800] if tier == "thorough" else [])
    for s, dt, rev, ref in itertools.product(starts, b["dts"], [False, True], ["none", "before", "after", "same", "epoch"]):
        out.append(dict(mode="clock", start=s, dt=dt, rev=rev, ref=ref, durations=durs))
    for k in range(16):
        out.append(dict(mode="strings", shard=k, nshards=16, maxlen=b["strlen"]))
    out.append(dict(mode="spellings", maxsec=7300 if tier == "thorough" else 3700))
    out.append(dict(mode="malformed-lists"))
    # every time step of 1..240 s (and the usual longer ones) x every step of -64..64 x direction: conversions are mutual inverses on step boundaries
    dts_wide = list(range(1, 241)) + [300, 450, 600, 900, 1200, 1800, 2700, 3600, 7200, 10800, 21600, 43200, 86400]
    for k in range(8):
        out.append(dict(mode="convert", dts=dts_wide[k::8], start=starts[k % len(starts)]))
    # every ordered pair of period spellings (valid, grey, malformed; with colliding str()/hash/==) in one fresh interpreter: the verdict on a spelling must not depend on earlier calls
    out.append(dict(mode="history"))
    # the library's own ISO writer: the text it produces for a duration below one day is an accepted spelling of that very duration
    out.append(dict(mode="iso-roundtrip"))
    return out


def secs(t) -> int:
    return int((np.datetime64(t, "s") - np.datetime64("1970-01-01T00:00:00", "s")) / np.timedelta64(1, "s"))


def run_clock(case):
    from ladim.timekeeper import TimeKeeper

    viols = []
    n = nt = 0
    outcomes = set()
    S = secs(case["start"])
    dt = case["dt"]
    sgn = -1 if case["rev"] else 1
    for dur in case["durations"]:
        E = S + sgn * dur
        ref = dict(none=None, before=min(S, E) - 86400 - 7, after=max(S, E) + 5, same=S, epoch=0)[case["ref"]]
        refsec = min(S, E) if ref is None else ref
        iso = lambda x: str(np.datetime64(int(x), "s"))  # noqa: E731
        sub = dict(case, durations=[dur])

        def bad(sig, msg):
            if sum(1 for v in viols if v["sig"] == sig) < 2:
                viols.append(util.viol(sig, f"start={case['start']} dur={dur}s dt={dt} rev={case['rev']} ref={case['ref']}: {msg}", sub))

        # the three documented ways of giving a time: ISO string, numpy datetime64, datetime instance (rotated over the durations)
        conv = [iso, lambda x: np.datetime64(int(x), "s"), lambda x: datetime.datetime(1970, 1, 1) + datetime.timedelta(seconds=int(x))][(dur + case["dt"]) % 3]
        try:
            kw = dict(start=conv(S), stop=conv(E), dt=dt, time_reversal=case["rev"])
            if ref is not None:
                kw["reference"] = conv(ref)
            tk = TimeKeeper(**kw)
        except SystemExit:
            if dur == 0:
                continue  # an empty window may be refused
            bad("clock:refused", "valid set-up refused")
            continue
        except Exception as e:
            bad("clock:exception", repr(e))
            continue
        n += 1
        N = dur // dt
        if N >= 2:
            nt += 1
        outcomes.add(N)
        if tk.Nsteps != N:
            bad("clock:nsteps", f"Nsteps={tk.Nsteps} expected {N}")
        t = lambda k: S + sgn * k * dt  # noqa: E731
        if secs(tk.reference_time) != refsec:
            bad("clock:reference", f"reference={tk.reference_time} expected {iso(refsec)}")
        ks = range(-3, N + 4) if N <= 50 else sorted(set(range(-3, 30)) | set(range(N - 3, N + 4)) | {N // 2, N // 3})
        for k in ks:
            n += 1
            try:
                if secs(tk.step2time(k)) != t(k):
                    bad("clock:step2time" + ("-reversed" if case["rev"] else ""), f"step2time({k})={tk.step2time(k)} expected {iso(t(k))}")
                for arg in (iso(t(k)), np.datetime64(t(k), "s")):
                    if tk.time2step(arg) != k:
                        bad("clock:time2step", f"time2step({arg})={tk.time2step(arg)} expected {k}")
                if secs(tk.step2isotime(k)) != t(k) or not isinstance(tk.step2isotime(k), str):
                    bad("clock:step2isotime", f"step2isotime({k})={tk.step2isotime(k)} expected {iso(t(k))}")
                for unit, div in (("s", 1), ("m", 60), ("h", 3600)):
                    got = tk.step2nctime(k, unit)
                    if abs(got - (t(k) - refsec) / div) > 1e-9 * max(1.0, abs(got)):
                        bad("clock:step2nctime", f"step2nctime({k},{unit})={got} expected {(t(k) - refsec) / div}")
                if tk.step2nctime(k) != float(t(k) - refsec):
                    bad("clock:step2nctime", f"step2nctime({k})={tk.step2nctime(k)}")
            except Exception as e:
                bad("clock:exception", f"step {k}: {e!r}")
        for unit, name in (("s", "seconds"), ("m", "minutes"), ("h", "hours")):
            exp = f"{name} since {np.datetime64(int(refsec), 's')}"
            if tk.cf_units(unit) != exp:
                bad("clock:cf_units", f"cf_units({unit})={tk.cf_units(unit)!r} expected {exp!r}")
        # the running clock
        for k in range(0, min(N, 45) + 1):
            tk.update()
            n += 1
            if tk.step != k or secs(tk.time) != t(k):
                bad("clock:running" + ("-reversed" if case["rev"] else ""), f"after {k + 1} update(): step={tk.step} time={tk.time} expected step {k} time {iso(t(k))}")
                break
            for unit, div in (("s", 1), ("h", 3600)):
                if abs(tk.nctime(unit) - (t(k) - refsec) / div) > 1e-9 * max(1.0, abs(t(k) - refsec)):
                    bad("clock:nctime", f"nctime({unit})={tk.nctime(unit)} at step {k} expected {(t(k) - refsec) / div}")
        # reset() after any number of updates: whatever step it chooses to go back to, the clock must read start +- step*dt, and keep doing so
        if hasattr(tk, "reset") and N >= 1:
            tk.reset()
            for k in range(3):
                n += 1
                if not isinstance(tk.step, (int, np.integer)) or secs(tk.time) != t(int(tk.step)):
                    bad("clock:reset", f"{k} update() after reset(): step={tk.step} time={tk.time} but step2time(step)={tk.step2time(tk.step)}")
                    break
                tk.update()
    return util.result(evals=n, nontrivial=nt, viol=viols, outcomes=sorted(outcomes), states=n, transitions=n, sample=dict(case, durations="..."))


# ---------------------------------------------------------------- spellings
def ref_parse(s: str):
    """Reference grammar for 'PTxHyMzS': returns seconds or None (malformed)."""
    if not s.startswith("PT"):
        return None
    rest = s[2:]
    total, seen_any = 0, False
    for unit, mult in (("H", 3600), ("M", 60), ("S", 1)):
        i = 0
        while i < len(rest) and rest[i] in "0123456789":
            i += 1
        if i > 0 and i < len(rest) and rest[i] == unit:
            total += int(rest[:i]) * mult
            rest = rest[i + 1 :]
            seen_any = True
    if rest or not seen_any:
        return None
    return total


ALPHA = ["P", "T", "H", "M", "S", "s", "h", "0", "1", "9", " "]


def run_strings(case):
    from ladim.timekeeper import normalize_period

    viols, n, nt = [], 0, 0
    outcomes = set()
    idx = 0
    for L in range(0, case["maxlen"] + 1):
        for tup in itertools.product(ALPHA, repeat=L):
            idx += 1
            if idx % case["nshards"] != case["shard"]:
                continue
            s = "".join(tup)
            exp = ref_parse(s)
            n += 1
            if exp is not None or s.startswith("PT"):
                nt += 1
            try:
                got = normalize_period(s)
                gots = int(got / np.timedelta64(1, "s"))
            except ValueError:
                gots = None
            except Exception as e:
                gots = repr(e)
            outcomes.add("ok" if gots is not None else "rej")
            if gots != exp and not grey_ok(s, exp, gots) and len(viols) < 6:
                sig = "period:malformed-accepted" if exp is None else "period:valid-rejected" if gots is None else "period:value"
                viols.append(util.viol(sig, f"normalize_period({s!r}) -> {gots} expected {exp}", dict(mode="string", s=s)))
    return util.result(evals=n, nontrivial=nt, viol=viols, outcomes=sorted(outcomes), states=n, transitions=n, sample=dict(string="PT1H9S", expected=3609))


def grey_ok(s, exp, gots):
    """Strings that are not in the strict grammar but have exactly one sensible reading (letter case, blanks around the text): the statement
    does not say whether they are 'malformed'. Rejecting them is fine; accepting them is fine only with that reading's value."""
    if exp is not None or gots is None:
        return False
    lenient = ref_parse(s.strip().upper())
    return lenient is not None and gots == lenient


def spellings_of(S: int):
    """All spellings of S seconds within the bounded grammar."""
    out = [("int", S), ("td64s", np.timedelta64(S, "s")), ("timedelta", datetime.timedelta(seconds=S)), ("list", [S, "s"])]
    if S % 60 == 0:
        out += [("td64m", np.timedelta64(S // 60, "m")), ("list", [S // 60, "m"]), ("timedelta", datetime.timedelta(minutes=S // 60))]
    if S % 3600 == 0:
        out += [("td64h", np.timedelta64(S // 3600, "h")), ("list", [S // 3600, "h"])]
    hs_ = range(0, S // 3600 + 1) if S < 20000 else sorted({0, 1, S // 3600, max(S // 3600 - 1, 0), S // 7200})
    for h in hs_:
        ms_ = range(0, (S - 3600 * h) // 60 + 1) if S < 20000 else sorted({0, 59, 60, (S - 3600 * h) // 60, (S - 3600 * h) // 120})
        for m in ms_:
            if 3600 * h + 60 * m > S:
                continue
            z = S - 3600 * h - 60 * m
            if m > 130 and S < 20000:
                continue
            for hs in ([""] if h == 0 else []) + [f"{h}H", f"0{h}H"]:
                for ms in ([""] if m == 0 else []) + [f"{m}M", f"00{m}M"]:
                    for zs in ([""] if z == 0 else []) + [f"{z}S", f"0{z}S"]:
                        if hs or ms or zs:
                            out.append(("iso", "PT" + hs + ms + zs))
    return out


def run_spellings(case):
    from ladim.timekeeper import duration2iso, normalize_period

    viols, n, nt = [], 0, 0
    kinds = set()
    values = list(range(0, 130)) + list(range(3540, case["maxsec"] + 1, 7)) + [3600, 3660, 3661, 7200, 5400, 600, 900]
    values += [86399, 86400, 86401, 90061, 100000, 129600, 172800, 360000, 604800, 1000000]  # a day and more (no implicit wrap at 24 h)
    for S in values:
        sp = spellings_of(S)
        for kind, x in sp:
            n += 1
            kinds.add(kind)
            try:
                got = normalize_period(x)
                ok = isinstance(got, np.timedelta64) and got == np.timedelta64(S, "s") and str(got.dtype) == "timedelta64[s]"
            except Exception as e:
                got, ok = repr(e), False
            if not ok and len(viols) < 6:
                viols.append(util.viol(f"period:spelling-{kind}", f"normalize_period({x!r}) = {got} expected {S} s", dict(mode="spelling1", S=S)))
        if len(sp) > 4:
            nt += 1
        # duration2iso round trip inside one day
        for d in (np.timedelta64(S, "s"), datetime.timedelta(seconds=S)) if S < 86400 else ():
            n += 1
            try:
                txt = duration2iso(d)
                back = ref_parse(txt)
                ok = back == S
            except Exception as e:
                txt, ok = repr(e), False
            if not ok and len(viols) < 6:
                viols.append(util.viol("period:duration2iso", f"duration2iso({d!r}) = {txt!r} does not denote {S} s", dict(mode="spelling1", S=S)))
    return util.result(evals=n, nontrivial=nt, viol=viols, outcomes=sorted(kinds), states=n, transitions=n, sample=dict(S=3661, spellings=[str(x) for _, x in spellings_of(3661)[:12]]))


# no reading as a duration at all: must be rejected
MALFORMED = [
    [], [1], [1, "s", 3], [1, 2], [1, "x"], [1, ""], [None, "s"], [[1], "s"],
    None, "", "PT", "P", "T1S", "PT1H1H", "PT1S1M", "PT1M1H", "P1S", "PTS", "PTH", "PT 1S", "PT1 S", "1S", "PT1SPT1S", {"s": 1},
]
# outside the spellings the statement lists, but with exactly one sensible reading (milliseconds): rejecting is fine, accepting is fine only with that value
GREY = [
    (["1", "s"], 1000), ([1.5, "s"], 1500), ([1, "sec"], 1000), ([1, "hours"], 3600000), (1.5, 1500), ("1", 1000), ("60", 60000), ("pt1s", 1000), ("PT1s", 1000),
    ("PT1S ", 1000), (" PT1S", 1000), ("PT-1S", -1000), ("PT1.5S", 1500), ("PT1D", 86400000), ((1, "s"), 1000), ((2, "m"), 120000), (b"PT1S", 1000),
    (np.int64(60), 60000), (np.int32(7), 7000),
]


def run_malformed(case):
    from ladim.timekeeper import normalize_period

    viols, n = [], 0
    for i, x in enumerate(MALFORMED):
        n += 1
        try:
            got = normalize_period(x)
            res = f"accepted -> {got}"
        except Exception:  # which exception class refuses a malformed period is not part of the statement
            res = None
        if res is not None:
            viols.append(util.viol("period:malformed-accepted", f"normalize_period({x!r}) {res}", dict(mode="malformed1", index=i)))
    for i, (x, ms) in enumerate(GREY):
        n += 1
        try:
            got = normalize_period(x)
        except Exception:
            continue
        try:
            gms = got / np.timedelta64(1, "ms")
        except Exception as e:
            gms = repr(e)
        if gms != ms:
            viols.append(util.viol("period:lenient-spelling-value", f"normalize_period({x!r}) is accepted and gives {got!r}, its only sensible reading is {ms} ms", dict(mode="malformed1", grey=i)))
    return util.result(evals=n, nontrivial=n, viol=viols[:6], outcomes=["rejected"], states=n, transitions=n, sample=dict(malformed=[repr(x) for x in MALFORMED[:10]]))


def run_convert(case):
    from ladim.timekeeper import TimeKeeper

    viols, n = [], 0
    S = secs(case["start"])
    for dt, rev in itertools.product(case["dts"], [False, True]):
        sgn = -1 if rev else 1
        tk = TimeKeeper(start=str(np.datetime64(S, "s")), stop=str(np.datetime64(S + sgn * 70 * dt, "s")), dt=dt, time_reversal=rev)
        for k in range(-64, 65):
            n += 1
            t = S + sgn * k * dt
            got_t = secs(tk.step2time(k))
            got_k = [tk.time2step(np.datetime64(t, "s")), tk.time2step(str(np.datetime64(t, "s")))]
            if (got_t != t or got_k != [k, k]) and len(viols) < 4:
                viols.append(util.viol("clock:time2step" if got_t == t else "clock:step2time", f"dt={dt} rev={rev} start={case['start']}: step2time({k})={tk.step2time(k)}, time2step of the exact time of step {k} = {got_k}",
                                       dict(mode="convert", dts=[dt], start=case["start"])))
            # strictly inside a step interval the step number is the one of the interval's beginning (floor)
            if dt > 1:
                inside = t + sgn * (dt // 2)
                if tk.time2step(np.datetime64(inside, "s")) != k and len(viols) < 4:
                    viols.append(util.viol("clock:time2step:inside-interval", f"dt={dt} rev={rev}: time2step(step {k} + {dt // 2} s) = {tk.time2step(np.datetime64(inside, 's'))} expected {k}",
                                           dict(mode="convert", dts=[dt], start=case["start"])))
    return util.result(evals=n, nontrivial=n, viol=viols, outcomes=["ok"], states=n, transitions=n, sample=dict(dts=len(case["dts"]), steps="-64..64"))


_HISTORY_SRC = r"""
import datetime, json, sys
import numpy as np
from ladim.timekeeper import normalize_period
VALID = [(600, 600), (np.timedelta64(600, "s"), 600), (np.timedelta64(10, "m"), 600), (datetime.timedelta(seconds=600), 600), ([600, "s"], 600), ([10, "m"], 600), ("PT10M", 600), ("PT600S", 600),
         (1, 1), ([1, "s"], 1), ("PT1S", 1), (60, 60), ([1, "m"], 60), ("PT1M", 60), (3600, 3600), ([1, "h"], 3600), ("PT1H", 3600), (np.timedelta64(1, "h"), 3600), (datetime.timedelta(hours=1), 3600),
         (86400, 86400), ([24, "h"], 86400), ("PT24H", 86400), (90061, 90061), ("PT25H1M1S", 90061)]
PROBES = ["600", "[600, 's']", "[10, 'm']", "10 minutes", "0:10:00", "600 seconds", "1", "60", "3600", "[1, 's']", "[1, 'm']", "[1, 'h']", "1 hours", "1:00:00", "0:00:01", "86400", "1 day, 0:00:00",
          "[24, 'h']", "90061", "PT", "P", "", "PT1H1H", "PT1S1M", [1], [1, "x"], [1, 2], [], None, True, 1.0, 600.0, [True, "s"], [1.0, "s"], (1, "s"), np.float64(600.0), [600], "PT10m", "pt10M", " PT10M"]
def outcome(x):
    try:
        v = normalize_period(x)
    except BaseException as e:
        return "rejected"
    try:
        return float(v / np.timedelta64(1, "ms"))
    except BaseException as e:
        return "odd:" + repr(v)
bad = []
n = 0
fresh = {}
for i, b in enumerate(PROBES):  # before any valid spelling has been seen by this interpreter
    fresh[i] = outcome(b)
for v, sec in VALID:
    n += 1
    if outcome(v) != sec * 1000.0:
        bad.append(["valid", repr(v), outcome(v), sec * 1000.0, "fresh"])
for a, _ in VALID + [(p, None) for p in PROBES]:
    outcome(a)
    for v, sec in VALID:
        n += 1
        if outcome(v) != sec * 1000.0:
            bad.append(["valid", repr(v), outcome(v), sec * 1000.0, repr(a)])
    for i, b in enumerate(PROBES):
        n += 1
        o = outcome(b)
        if o != fresh[i]:
            bad.append(["probe", repr(b), o, fresh[i], repr(a)])
print(json.dumps(dict(n=n, bad=bad[:8], nbad=len(bad))))
"""


def run_history(case):
    import json
    import subprocess

    r = subprocess.run([sys.executable, "-c", _HISTORY_SRC], capture_output=True, text=True, timeout=600)
    if r.returncode != 0:
        raise util.HarnessError(f"history child failed: {r.stderr[-500:]}")
    res = json.loads(r.stdout.strip().splitlines()[-1])
    viols = []
    for kind, x, got, exp, after in res["bad"]:
        if kind == "valid":
            viols.append(util.viol("period:history:valid", f"normalize_period({x}) gives {got} ms after normalize_period({after}), expected {exp} ms", dict(mode="history")))
        else:
            viols.append(util.viol("period:history:verdict-depends-on-earlier-calls", f"normalize_period({x}) -> {got} after normalize_period({after}) but {exp} in a fresh interpreter "
                                   "(whether a spelling is accepted, and with which value, must not depend on the calls made before)", dict(mode="history")))
    seen, uniq = set(), []
    for v in viols:
        if v["sig"] not in seen:
            seen.add(v["sig"])
            uniq.append(v)
    return util.result(evals=res["n"], nontrivial=res["n"], viol=uniq, outcomes=["ok"], states=res["n"], transitions=res["n"], sample=dict(mode="history", pairs=res["n"]))


def run_iso(case):
    from ladim.timekeeper import duration2iso, normalize_period

    viols, n = [], 0
    for S in list(range(0, 7300)) + [36000, 43200, 86399]:
        reps = [("td64[s]", np.timedelta64(S, "s")), ("timedelta", datetime.timedelta(seconds=S))]
        if S % 60 == 0:
            reps.append(("td64[m]", np.timedelta64(S // 60, "m")))
        if S % 3600 == 0:
            reps.append(("td64[h]", np.timedelta64(S // 3600, "h")))
        reps.append(("td64[ms]", np.timedelta64(S * 1000, "ms")))
        for kind, d in reps:
            n += 1
            try:
                iso = duration2iso(d)
                back = int(normalize_period(iso) / np.timedelta64(1, "s")) if S > 0 else (0 if iso in ("PT0S", "PT0H0M0S", "P0D", "PT0M") or ref_parse(iso) == 0 else None)
            except Exception as e:
                iso, back = None, repr(e)
            if back != S and len(viols) < 3:
                viols.append(util.viol("period:iso-writer", f"duration2iso({d!r}) = {iso!r}, which normalize_period reads as {back} s; the duration is {S} s ({kind})", dict(mode="iso-roundtrip")))
    return util.result(evals=n, nontrivial=n, viol=viols, outcomes=["ok"], states=n, transitions=n, sample=dict(mode="iso-roundtrip", durations="0..7299 s, 10 h, 12 h, 86399 s"))


def run_case(case):
    m = case["mode"]
    if m == "iso-roundtrip":
        return run_iso(case)
    if m == "convert":
        return run_convert(case)
    if m == "history":
        return run_history(case)
    if m == "clock":
        return run_clock(case)
    if m == "strings":
        return run_strings(case)
    if m == "string":
        from ladim.timekeeper import normalize_period

        s, exp = case["s"], ref_parse(case["s"])
        try:
            gots = int(normalize_period(s) / np.timedelta64(1, "s"))
        except ValueError:
            gots = None
        except Exception as e:
            gots = repr(e)
        sig = "period:malformed-accepted" if exp is None else "period:valid-rejected" if gots is None else "period:value"
        return util.result(viol=[] if gots == exp or grey_ok(s, exp, gots) else [util.viol(sig, f"normalize_period({s!r}) -> {gots} expected {exp}", case)])
    if m == "spellings":
        return run_spellings(case)
    if m == "spelling1":
        r = run_spellings(dict(maxsec=0))  # cheap: covers the base set
        vs = [v for v in r["viol"] if v["case"].get("S") == case["S"]]
        if not vs:
            from ladim.timekeeper import normalize_period

            for kind, x in spellings_of(case["S"]):
                try:
                    ok = normalize_period(x) == np.timedelta64(case["S"], "s")
                except Exception:
                    ok = False
                if not ok:
                    vs.append(util.viol(f"period:spelling-{kind}", f"{x!r}", case))
        return util.result(viol=vs)
    if m == "malformed-lists":
        return run_malformed(case)
    if m == "malformed1":
        r = run_malformed(case)
        return util.result(viol=[v for v in r["viol"] if v["case"].get("index") == case.get("index") and v["case"].get("grey") == case.get("grey")])
    raise util.HarnessError(case)
