"""C01 - advection = the scheme's Butcher tableau; orders 1 / 2 / 4.

Seam 1: real State + Tracker, analytic grid plug-in (any metric) and a *recording* analytic forcing:
every stage query (position, fractional time) of every step is compared with the tableau.
Seam 2: the real ROMS Grid + Forcing on files whose fields are linear in x, y and in time
(interpolation exact), end-to-end through Model and the output file, against a reference stepper.
Corroboration: observed convergence orders against closed-form flow maps, also for
ladim.analytical.get_velocity1/2/4.
"""

from __future__ import annotations

import importlib.util
import itertools
import math

import numpy as np

from mc import drive, util, world

ID = "C01"
LEVEL = "model_checking"
RULE = (
    "scheme x field family x metric family x per-step displacement x dt x 5x5 start lattice x step counts, every step's recorded stage "
    "queries compared with the tableau; convergence triples (n, 2n, 4n) per field x scheme; non-trivial = field not constant in space or time "
    "(so the stages differ) ; lattice points distinct by construction"
)
ASSUMPTIONS = [
    "RK2 may be any member of the one-parameter second-order family (s inferred from the recorded fractional step)",
    "positions in the grid interior (clipping, land and boundary belong to C09/C17)",
    "the order statement is decided by tableau conformance (classical theorem) and corroborated at finitely many step sizes",
]

SCHEMES = ["EF", "RK2", "RK4"]
FIELDS = ["const", "shear", "rot", "saddle", "conv", "tlin", "rotramp", "xt", "ramp"]
METRICS = [dict(dx=1.0), dict(dx=100.0), dict(dx=1600.0), dict(dx=800.0, dy=500.0), dict(dx=400.0, metric="cellwise"), dict(dx=200.0, tall=True)]
XC, YC = 20.0, 15.0
S0 = world.tosec("2020-01-01T00:00:00")

_mods = {}


def plugin(name):
    if name not in _mods:
        spec = importlib.util.spec_from_file_location("c01_" + name, drive.PLUG / (name + ".py"))
        m = importlib.util.module_from_spec(spec)
        spec.loader.exec_module(m)
        _mods[name] = m
    return _mods[name]


def bounds(tier, seed):
    return dict(schemes=SCHEMES, fields=FIELDS, metrics=len(METRICS), disp=[0.05, 0.3, 0.9], dts=[60, 600, 3600, 90000] if tier == "thorough" else [600, 90000],
                steps=[1, 2, 3, 8] if tier == "thorough" else [1, 3], convergence_n=[8, 16, 32])


def cases(tier, seed):
    b = bounds(tier, seed)
    out = []
    for sch, f, mi, disp, dt in itertools.product(SCHEMES, FIELDS, range(len(METRICS)), b["disp"], b["dts"]):
        out.append(dict(mode="trace", scheme=sch, field=f, metric=mi, disp=disp, dt=dt, steps=max(b["steps"])))
    for sch, f, mi in itertools.product(SCHEMES, ["shear", "rot", "rotramp", "ramp"], [1, 3, 4]):
        out.append(dict(mode="inactive", scheme=sch, field=f, metric=mi, disp=0.3, dt=600, steps=3))
    for sch, f, sp in itertools.product(SCHEMES, ["shear", "rot", "saddle", "conv"], [0.5, 2.0 / 3.0, 0.75, 1.0]):
        if sch == "RK2" or sp == 1.0:
            out.append(dict(mode="helper", scheme=sch, field=f, s=sp))
    for sch, f in itertools.product(SCHEMES, ["shear", "rot", "saddle", "conv", "tlin", "rotramp", "xt", "ramp"]):
        out.append(dict(mode="order", scheme=sch, field=f, via="tracker"))
        out.append(dict(mode="order", scheme=sch, field=f, via="analytical"))
    for sch, f, sub in itertools.product(SCHEMES, ["tlin", "shear", "rot", "saddle"], [None, [2, 12, 1, 10]]):
        out.append(dict(mode="roms", scheme=sch, field=f, subgrid=sub))
    # the real ROMS grid with an anisotropic metric (pm != pn): dY/dt = v/dy
    for sch, f in itertools.product(SCHEMES, ["tlin", "rot", "saddle"]):
        out.append(dict(mode="roms", scheme=sch, field=f, subgrid=None, dy=500.0))
    return out


def params(field, disp, dt, tall=False):
    """Field parameters giving a per-step displacement of about `disp` cells near the start lattice (radius ~4 cells)."""
    r = disp / dt  # grid units per second
    p = dict(xc=XC - (8.0 if tall else 0.0), yc=YC + (25.0 if tall else 0.0))
    if field == "const":
        p.update(a=r, b=-0.5 * r)
    elif field == "shear":
        p.update(a=r / 4, b=0.25 * r)
    elif field in ("rot", "saddle", "conv"):
        p.update(a=r / 4)
    elif field == "tlin":
        p.update(a=0.5 * r, b=0.25 * r / dt, c=-0.25 * r)
    elif field == "rotramp":
        p.update(a=r / 8, b=0.125 / dt)
    elif field == "xt":
        p.update(a=r / (16 * dt), b=0.25 * r)
    elif field == "ramp":
        p.update(a=r / (2 * dt), b=-0.25 * r / dt)
    return p


def flow_map(field, p, x0, y0, T):
    a, b, c = p.get("a", 0), p.get("b", 0), p.get("c", 0)
    xc, yc = p["xc"], p["yc"]
    if field == "const":
        return x0 + a * T, y0 + b * T
    if field == "shear":
        return x0 + a * (y0 - yc) * T + a * b * T * T / 2, y0 + b * T
    if field in ("rot", "rotramp"):
        th = a * T if field == "rot" else a * (T + b * T * T / 2)
        dx, dy = x0 - xc, y0 - yc
        return xc + dx * math.cos(th) - dy * math.sin(th), yc + dx * math.sin(th) + dy * math.cos(th)
    if field == "saddle":
        return xc + (x0 - xc) * math.exp(a * T), yc + (y0 - yc) * math.exp(-a * T)
    if field == "conv":
        return xc + (x0 - xc) * math.exp(-a * T), yc + (y0 - yc) * math.exp(-a * T)
    if field == "tlin":
        return x0 + a * T + b * T * T / 2, y0 + c * T + b * T * T
    if field == "xt":
        return xc + (x0 - xc) * math.exp(a * T * T / 2), y0 + b * T
    if field == "ramp":
        return x0 + a * T * T / 2, y0 + b * T * T / 2
    raise util.HarnessError(field)


def build(scheme, field, p, metric, dt, starts):
    from ladim.state import State
    from ladim.timekeeper import TimeKeeper
    from ladim.tracker import Tracker

    mods = {}
    mods["time"] = TimeKeeper(start=world.iso(S0), stop=world.iso(S0 + 100000 * dt), dt=dt)
    mods["state"] = State()
    g = dict(imax=40, jmax=30)
    g.update(metric)
    if g.pop("tall", False):  # more rows than columns; the start lattice lies north of y = xmax
        g.update(imax=34, jmax=70)
    mods["grid"] = plugin("agrid").Grid(modules=mods, **g)
    L = metric["dx"]
    mods["forcing"] = plugin("aforce").Forcing(mods, field=field, params=dict(p, L=L))
    mods["tracker"] = Tracker(advection=scheme, modules=mods)
    mods["state"].append(X=np.array([s[0] for s in starts]), Y=np.array([s[1] for s in starts]), Z=5.0)
    return mods


STARTS = [(XC - 4 + 2 * i + 0.3, YC - 4 + 2 * j - 0.2) for i in range(5) for j in range(5)]


def check_step(scheme, queries, X0, Y0, X1, Y1, dx, dy, dt, fx):
    """Tableau conformance of one step. queries: [(step, frac, X, Y, U, V)]. fx = field evaluator for independent re-evaluation.
    Returns (sig, msg) or None."""
    tol = 1e-11

    def close(a, b):
        return np.all(np.abs(np.asarray(a) - np.asarray(b)) <= tol * np.maximum(1.0, np.abs(b)))

    nq = dict(EF=1, RK2=2, RK4=4)[scheme]
    if len(queries) != nq:
        return ("stage-count", f"{len(queries)} velocity queries in one step, expected {nq}")
    q0 = queries[0]
    if abs(q0[1]) > 1e-12 or not close(q0[2], X0) or not close(q0[3], Y0):
        return ("stage-1", f"first stage queried at frac={q0[1]} X={q0[2][:2]} expected frac 0 at the particle positions {X0[:2]}")
    U = [q[4] for q in queries]
    V = [q[5] for q in queries]
    if scheme == "EF":
        wU, wV = U[0], V[0]
    elif scheme == "RK2":
        s = queries[1][1]
        if not (0 < s <= 1.0 + 1e-12):
            return ("rk2-parameter", f"second stage at fractional step {s}, outside (0,1]")
        if not close(queries[1][2], X0 + s * dt * U[0] / dx) or not close(queries[1][3], Y0 + s * dt * V[0] / dy):
            return ("stage-position", f"RK2 stage 2 at X={queries[1][2][:2]} expected {(X0 + s * dt * U[0] / dx)[:2]} (s={s})")
        m = 1.0 / (2 * s)
        wU, wV = (1 - m) * U[0] + m * U[1], (1 - m) * V[0] + m * V[1]
    else:
        cs = [0.0, 0.5, 0.5, 1.0]
        for k in (1, 2, 3):
            if abs(queries[k][1] - cs[k]) > 1e-12:
                return ("stage-time", f"RK4 stage {k + 1} at fractional step {queries[k][1]} expected {cs[k]}")
            ex, ey = X0 + cs[k] * dt * U[k - 1] / dx, Y0 + cs[k] * dt * V[k - 1] / dy
            if not close(queries[k][2], ex) or not close(queries[k][3], ey):
                return ("stage-position", f"RK4 stage {k + 1} at X={queries[k][2][:2]} Y={queries[k][3][:2]} expected X={ex[:2]} Y={ey[:2]}")
        wU = (U[0] + 2 * U[1] + 2 * U[2] + U[3]) / 6
        wV = (V[0] + 2 * V[1] + 2 * V[2] + V[3]) / 6
    eX, eY = X0 + dt * wU / dx, Y0 + dt * wV / dy
    if not close(X1, eX) or not close(Y1, eY):
        return ("displacement", f"new position X={X1[:2]} Y={Y1[:2]} expected X={eX[:2]} Y={eY[:2]} (weighted stage velocities, dx={np.asarray(dx).ravel()[:2]}, dy={np.asarray(dy).ravel()[:2]})")
    return None


def run_trace(case):
    scheme, field, dt = case["scheme"], case["field"], case["dt"]
    metric = METRICS[case["metric"]]
    tall = bool(metric.get("tall"))
    p = params(field, case["disp"], dt, tall)
    starts = [(x - 8.0, y + 25.0) for x, y in STARTS] if tall else STARTS
    mods = build(scheme, field, p, metric, dt, starts)
    st, tk, fo, tr, g = mods["state"], mods["time"], mods["forcing"], mods["tracker"], mods["grid"]
    n = 0
    for k in range(case["steps"]):
        tk.update()
        fo.update()
        X0, Y0 = st.X.copy(), st.Y.copy()
        cx, cy = (p["xc"], p["yc"])
        if np.abs(X0 - cx).max() > 9.0 or np.abs(Y0 - cy).max() > 7.5:
            break  # divergent fields (saddle, x*t) carry the lattice towards the edge after a few large steps: the interior scenario ends here
        dx, dy = g.metric(X0, Y0)
        fo.queries.clear()
        try:
            tr.update()
        except Exception as e:
            return util.result(evals=n + 1, nontrivial=0, viol=[util.viol("exception", f"{case}: tracker.update raised {e!r}", case)])
        n += len(X0)
        if not st.alive.all():
            return util.result(evals=n, nontrivial=n, viol=[util.viol(f"displacement:{scheme}", f"{case} step {k}: a particle left the 40x30 interior although the per-step displacement is {case['disp']} cells", case)])
        res = check_step(scheme, list(fo.queries), X0, Y0, st.X, st.Y, dx, dy, float(dt), None)
        if res is not None:
            sig = f"{res[0]}:{scheme}"
            return util.result(evals=n, nontrivial=n if field != "const" else 0, viol=[util.viol(sig, f"{scheme} {field} metric={metric} disp={case['disp']} dt={dt} step {k}: {res[1]}", case)], outcomes=[sig])
    return util.result(evals=n, nontrivial=n if field != "const" else 0, outcomes=[f"ok:{scheme}"], states=n, transitions=n * dict(EF=1, RK2=2, RK4=4)[scheme], sample=case)


def ref_tableau_step(scheme, s, fname, p, x, y, t, dt, dx, dy):
    """One step of the scheme for one particle with the exact analytic field and the metric frozen at the start cell."""
    f = plugin("aforce").field

    def rate(xx, yy, tt):
        u, v = f(fname, p, np.array([xx]), np.array([yy]), tt)
        return float(u[0]) / dx, float(v[0]) / dy

    k1 = rate(x, y, t)
    if scheme == "EF":
        return x + dt * k1[0], y + dt * k1[1]
    if scheme == "RK2":
        k2 = rate(x + s * dt * k1[0], y + s * dt * k1[1], t + s * dt)
        m = 1 / (2 * s)
        return x + dt * ((1 - m) * k1[0] + m * k2[0]), y + dt * ((1 - m) * k1[1] + m * k2[1])
    k2 = rate(x + 0.5 * dt * k1[0], y + 0.5 * dt * k1[1], t + 0.5 * dt)
    k3 = rate(x + 0.5 * dt * k2[0], y + 0.5 * dt * k2[1], t + 0.5 * dt)
    k4 = rate(x + dt * k3[0], y + dt * k3[1], t + dt)
    return x + dt * (k1[0] + 2 * k2[0] + 2 * k3[0] + k4[0]) / 6, y + dt * (k1[1] + 2 * k2[1] + 2 * k3[1] + k4[1]) / 6


def run_inactive(case):
    """Some particles are inactive (also the first one): every ACTIVE particle must still move by its own tableau step,
    computed by an independent per-particle reference stepper; inactive ones stay."""
    scheme, field, dt = case["scheme"], case["field"], case["dt"]
    metric = METRICS[case["metric"]]
    p = params(field, case["disp"], dt)
    mods = build(scheme, field, p, metric, dt, STARTS)
    st, tk, fo, tr, g = mods["state"], mods["time"], mods["forcing"], mods["tracker"], mods["grid"]
    inactive = [0, 3, 11]
    n = 0
    for k in range(case["steps"]):
        tk.update()
        fo.update()
        if k == 1:
            for i in inactive:
                st["active"][i] = False
        X0, Y0 = st.X.copy(), st.Y.copy()
        dx, dy = g.metric(X0, Y0)
        dx, dy = np.broadcast_to(dx, X0.shape), np.broadcast_to(dy, X0.shape)
        fo.queries.clear()
        try:
            tr.update()
        except Exception as e:
            return util.result(evals=n + 1, nontrivial=1, viol=[util.viol("exception", f"{case}: tracker.update raised {e!r}", case)])
        s = 0.5
        if scheme == "RK2" and len(fo.queries) >= 2 and 0 < fo.queries[1][1] <= 1:
            s = fo.queries[1][1]
        for i in range(len(X0)):
            n += 1
            if k >= 1 and i in inactive:
                ex, ey = X0[i], Y0[i]
            else:
                ex, ey = ref_tableau_step(scheme, s, field, dict(p, L=metric["dx"]), X0[i], Y0[i], k * dt, float(dt), float(dx[i]), float(dy[i]))
            if abs(st.X[i] - ex) > 1e-10 or abs(st.Y[i] - ey) > 1e-10:
                what = "inactive particle moved" if (k >= 1 and i in inactive) else "active particle displaced wrongly while other particles are inactive" if k >= 1 else "wrong displacement"
                return util.result(evals=n, nontrivial=n, viol=[util.viol(f"inactive:{scheme}", f"{scheme} {field} metric={metric} step {k} particle {i}: at ({st.X[i]},{st.Y[i]}) expected ({ex},{ey}) [{what}]", case)])
    return util.result(evals=n, nontrivial=n, outcomes=[f"inactive-ok:{scheme}"], states=n, transitions=n, sample=case)


def run_helper(case):
    """ladim.analytical.get_velocity1/2/4 against the tableau formula, with a recording sample function."""
    from ladim import analytical
    from ladim.state import State

    scheme, field, s = case["scheme"], case["field"], case["s"]
    fmod = plugin("aforce")
    dt = 600.0
    p = dict(params(field, 0.4, dt), L=1.0)
    st = State()
    st.append(X=np.array([x for x, _ in STARTS]), Y=np.array([y for _, y in STARTS]), Z=0.0)
    calls = []

    def sample(x, y):
        calls.append((np.array(x, copy=True), np.array(y, copy=True)))
        return fmod.field(field, p, x, y, 0.0)

    try:
        if scheme == "EF":
            U, V = analytical.get_velocity1(st, sample, dt)
        elif scheme == "RK2":
            U, V = analytical.get_velocity2(st, sample, dt) if s == 1.0 else analytical.get_velocity2(st, sample, dt, s)
        else:
            U, V = analytical.get_velocity4(st, sample, dt)
    except Exception as e:
        return util.result(viol=[util.viol("helper:exception", f"{case}: {e!r}", case)], nontrivial=1)
    viols = []
    # a sample function that hands back its own arguments (u = y, v = x): the helper must not write into them
    st2 = State()
    st2.append(X=np.array([x for x, _ in STARTS]), Y=np.array([y for _, y in STARTS]), Z=0.0)
    x_before, y_before = st2.X.copy(), st2.Y.copy()
    getv = dict(EF=analytical.get_velocity1, RK2=analytical.get_velocity2, RK4=analytical.get_velocity4)[scheme]
    try:
        U2, V2 = getv(st2, lambda x, y: (y, x), 1e-4)
        U2, V2 = np.array(U2), np.array(V2)
    except Exception as e:
        return util.result(viol=[util.viol("helper:exception", f"{case}: {e!r}", case)], nontrivial=1)
    if not (np.array_equal(st2.X, x_before) and np.array_equal(st2.Y, y_before)):
        viols.append(util.viol(f"helper:side-effect:{scheme}", f"get_velocity for {scheme} modified the particle positions of the state (sample function returning its arguments)", case))
    elif np.abs(U2 - y_before).max() > 1e-2 or np.abs(V2 - x_before).max() > 1e-2:
        viols.append(util.viol(f"helper:{scheme}", f"get_velocity for {scheme} with u=y, v=x returned U={U2[:2]} V={V2[:2]} for positions X={x_before[:2]} Y={y_before[:2]}", case))
    for i, (x, y) in enumerate(STARTS):
        ex, ey = ref_tableau_step(scheme, s, field, p, x, y, 0.0, dt, 1.0, 1.0)
        gu, gv = (ex - x) / dt, (ey - y) / dt
        if abs(U[i] - gu) > 1e-12 * max(1, abs(gu)) + 1e-15 or abs(V[i] - gv) > 1e-12 * max(1, abs(gv)) + 1e-15:
            viols.append(util.viol(f"helper:{scheme}", f"get_velocity for {scheme} (s={s}) on {field} at {STARTS[i]}: ({U[i]},{V[i]}) expected the tableau velocity ({gu},{gv})", case))
            break
    return util.result(evals=len(STARTS), nontrivial=len(STARTS), viol=viols, outcomes=[f"helper:{scheme}:{s}"], states=len(STARTS), transitions=len(calls), sample=case)


def integrate_tracker(scheme, field, p, n, T):
    dt = T / n
    dti = int(round(dt))
    mods = build(scheme, field, p, dict(dx=100.0), dti, STARTS[:5])
    mods["forcing"].record = False
    for _ in range(n):
        mods["time"].update()
        mods["forcing"].update()
        mods["tracker"].update()
    return mods["state"].X.copy(), mods["state"].Y.copy()


def integrate_analytical(scheme, field, p, n, T):
    from ladim import analytical
    from ladim.state import State

    dt = T / n
    fmod = plugin("aforce")
    st = State()
    st.append(X=np.array([s[0] for s in STARTS[:5]]), Y=np.array([s[1] for s in STARTS[:5]]), Z=0.0)
    getv = dict(EF=analytical.get_velocity1, RK2=analytical.get_velocity2, RK4=analytical.get_velocity4)[scheme]
    for k in range(n):
        t0 = k * dt
        # helpers know no time argument: they are documented for steady fields
        U, V = getv(st, lambda x, y: fmod.field(field, dict(p, L=1.0), x, y, t0), dt)
        st["X"] = st.X + dt * U
        st["Y"] = st.Y + dt * V
    return st.X.copy(), st.Y.copy()


def run_order(case):
    scheme, field = case["scheme"], case["field"]
    if case["via"] == "analytical" and field in ("tlin", "rotramp", "xt", "ramp"):
        return util.result(evals=0, nontrivial=0)  # steady fields only for the helpers
    T = 38400.0  # divisible by 8, 16, 32, 64 into whole seconds
    p = params(field, 0.6, T / 8)
    order_req = dict(EF=1, RK2=2, RK4=4)[scheme]
    errs = []
    for n in (8, 16, 32):
        X, Y = (integrate_tracker if case["via"] == "tracker" else integrate_analytical)(scheme, field, p, n, T)
        ex = [flow_map(field, p, x0, y0, T) for x0, y0 in STARTS[:5]]
        errs.append(max(math.hypot(X[i] - ex[i][0], Y[i] - ex[i][1]) for i in range(5)))
    viols = []
    orders = []
    for e1, e2 in zip(errs, errs[1:]):
        if e1 > 1e-10 and e2 > 1e-11:
            orders.append(math.log2(e1 / e2))
    if orders and min(orders) < order_req - 0.35:
        viols.append(util.viol(f"order:{scheme}:{case['via']}", f"{scheme} via {case['via']} on {field}: end-point errors {errs} give observed orders {[round(o, 2) for o in orders]}, expected ~{order_req}", case))
    if not orders and errs[0] > 1e-9:
        viols.append(util.viol(f"order:{scheme}:{case['via']}", f"errors {errs} do not decrease", case))
    return util.result(evals=3, nontrivial=1, viol=viols, outcomes=[f"{scheme}:{[round(o, 1) for o in orders]}"], states=3 * 56, transitions=3 * 56,
                       sample=dict(case, errors=errs, observed_orders=orders))


# ------------------------------------------------------------------ seam 2: ROMS files, end to end
def ref_step(scheme, fu, x, y, t, dt, dx, s=0.5, dy=None):
    """Reference stepper (tableau) with exact field fu(x, y, t) -> (u, v) in m/s and uniform metric dx (dy along Y)."""
    dy = dx if dy is None else dy
    if scheme == "EF":
        u, v = fu(x, y, t)
        return x + dt * u / dx, y + dt * v / dy
    if scheme == "RK2":
        u0, v0 = fu(x, y, t)
        u1, v1 = fu(x + s * dt * u0 / dx, y + s * dt * v0 / dy, t + s * dt)
        m = 1 / (2 * s)
        return x + dt * ((1 - m) * u0 + m * u1) / dx, y + dt * ((1 - m) * v0 + m * v1) / dy
    u0, v0 = fu(x, y, t)
    u1, v1 = fu(x + 0.5 * dt * u0 / dx, y + 0.5 * dt * v0 / dy, t + 0.5 * dt)
    u2, v2 = fu(x + 0.5 * dt * u1 / dx, y + 0.5 * dt * v1 / dy, t + 0.5 * dt)
    u3, v3 = fu(x + dt * u2 / dx, y + dt * v2 / dy, t + dt)
    return x + dt * (u0 + 2 * u1 + 2 * u2 + u3) / (6 * dx), y + dt * (v0 + 2 * v1 + 2 * v2 + v3) / (6 * dy)


def run_roms(case):
    scheme, field = case["scheme"], case["field"]
    d = util.scratch("c01")
    dx, dt, nsteps = 800.0, 600, 6
    w = world.World(imax=14, jmax=12, N=2, h=50.0, dx=dx, dy=case.get("dy"))
    xc, yc = 7.0, 5.5
    # fields linear in x, y (exact under bilinear C-grid interpolation); time dependence linear between two frames
    if field == "tlin":
        f0, f1 = w.uniform(0.25, -0.125), w.uniform(0.75, 0.375)
        fu = lambda x, y, t: (0.25 + 0.5 * t / (nsteps * dt), -0.125 + 0.5 * t / (nsteps * dt))  # noqa: E731
    elif field == "shear":
        f0 = w.linear_uv(-yc * 0.125, 0.0, 0.125, 0.0625, 0.0, 0.0)
        f1 = f0
        fu = lambda x, y, t: (0.125 * (y - yc), 0.0625)  # noqa: E731
    elif field == "rot":
        om = 0.125
        f0 = w.linear_uv(om * yc, 0.0, -om, -om * xc, om, 0.0)
        f1 = w.linear_uv(2 * om * yc, 0.0, -2 * om, -2 * om * xc, 2 * om, 0.0)  # spins up linearly in time
        fu = lambda x, y, t: (-(om + om * t / (nsteps * dt)) * (y - yc), (om + om * t / (nsteps * dt)) * (x - xc))  # noqa: E731
    else:  # saddle
        a = 0.125
        f0 = w.linear_uv(-a * xc, a, 0.0, a * yc, 0.0, -a)
        f1 = f0
        fu = lambda x, y, t: (a * (x - xc), -a * (y - yc))  # noqa: E731
    w.write_file(d / "f.nc", [dict(t=S0, **f0), dict(t=S0 + nsteps * dt, **f1)])
    starts = [(5.3, 4.2), (7.0, 5.5), (8.6, 6.9), (6.1, 7.3)]
    rows = [dict(release_time=world.iso(S0), X=x, Y=y, Z=5.0) for x, y in starts]
    conf = drive.roms_conf(d, d / "f.nc", S0, S0 + nsteps * dt, dt, rows, tracker=dict(advection=scheme), subgrid=case["subgrid"])
    try:
        drive.run_model(conf, d)
        out = world.read_output([d / "out.nc"])
    except drive.RunFailed as e:
        return util.result(viol=[util.viol("roms:crash", f"{case}: {e}", case)], nontrivial=1)
    best = None
    for s in ([0.5, 1.0, 2.0 / 3.0] if scheme == "RK2" else [0.5]):
        pos = list(starts)
        worst = 0.0
        for k in range(nsteps):
            rec = out["records"][k]
            for i, (x, y) in enumerate(pos):
                worst = max(worst, abs(rec["vars"]["X"][i] - x), abs(rec["vars"]["Y"][i] - y))
            pos = [ref_step(scheme, fu, x, y, k * dt, dt, dx, s, case.get("dy")) for x, y in pos]
        best = worst if best is None else min(best, worst)
    v = []
    if best > 1e-9:
        v.append(util.viol(f"roms:trajectory:{scheme}" + (":anisotropic-metric" if case.get("dy") else ""), f"{scheme} on ROMS files, field {field}, subgrid {case['subgrid']}, dy={case.get('dy', dx)}: trajectory deviates from the reference {scheme} stepper by {best} cells", case))
    return util.result(evals=nsteps * len(starts), nontrivial=nsteps * len(starts), viol=v, outcomes=[f"roms:{scheme}:{best < 1e-9}"], states=nsteps, transitions=nsteps * 4, sample=case)


def warmup():
    run_trace(dict(mode="trace", scheme="RK4", field="rot", metric=1, disp=0.3, dt=600, steps=1))
    run_trace(dict(mode="trace", scheme="RK2", field="rot", metric=1, disp=0.3, dt=600, steps=1))
    run_roms(dict(mode="roms", scheme="EF", field="shear", subgrid=None))


def run_case(case):
    return dict(trace=run_trace, order=run_order, roms=run_roms, inactive=run_inactive, helper=run_helper)[case["mode"]](case)
