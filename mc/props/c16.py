"""C16 - longitude/latitude <-> grid coordinates; the 2-D sampler.

(a) Grid.xy2ll / ll2xy on generated conformal (polar-stereographic, rotated) grids, all subgrids of a family,
    positions on a 0.37 lattice of the valid region;
(b) release by lon/lat and lon/lat output through the assembled Model;
(c) sample2D on every mask of a 3x3 grid, a 0.25 position lattice incl. nodes/edges/outside, every substitute value.
"""

from __future__ import annotations

import itertools
import math

import numpy as np

from mc import drive, util, world

ID = "C16"
LEVEL = "model_checking"
RULE = (
    "(a) resolution x rotation x size x subgrid x 0.37 position lattice; (b) one Model run per grid x layout with a release row on each lattice position; "
    "(c) every one of the 2^9 masks of a 3x3 field (and a slice of 4x5 masks) x 2 fields x 0.25 position lattice incl. the outside on all four sides x "
    "undef values x outside_value in {None, -1, 0.0, 5}; non-trivial = position strictly inside a cell (a,b) or a mask with 1..8 masked nodes / an outside "
    "position (c); lattice points distinct by construction"
)
RULE += " Beyond the lattice (chosen scenarios, not enumerated): grids 1600 cells wide / 1500 cells tall."
ASSUMPTIONS = ["conformal grids from a spherical polar-stereographic projection", "round trip required to the solver's own tolerance (squared residual 1e-7 deg^2)"]

R_EARTH = 6371000.0
RES = [800.0, 4000.0, 20000.0]
ROT = [0.0, 30.0, 58.0, -120.0]
SIZES = [(12, 10), (40, 30)]
S0 = world.tosec("2020-01-01T00:00:00")


def bounds(tier, seed):
    return dict(res=RES, rot=ROT, sizes=SIZES if tier == "thorough" else SIZES[:1] + ([SIZES[1]] if seed % 2 == 0 else []), subgrids="3x3 family", lattice=0.37,
                masks=512, sampler_lattice=0.25, outside_values=[None, -1.0, 0.0, 5.0])


def cases(tier, seed):
    b = bounds(tier, seed)
    out = []
    for res, rot, size in itertools.product(RES, ROT, b["sizes"]):
        out.append(dict(mode="grid", res=res, rot=rot, size=list(size)))
    # a high-resolution grid (160 m): the Jacobian of the lon/lat mapping is tiny in degrees, the mapping is as regular as ever
    for rot in ROT[:2]:
        out.append(dict(mode="grid", res=160.0, rot=rot, size=[12, 10]))
        out.append(dict(mode="grid", res=160.0, rot=rot, size=[120, 14]))  # ... and the first guess may be 60 cells from the target
    # a grid more than a thousand cells wide: the inverse mapping has to travel hundreds of cells from its first guess
    out.append(dict(mode="grid", res=800.0, rot=30.0, size=[1600, 12]))
    out.append(dict(mode="grid", res=800.0, rot=0.0, size=[14, 1500]))
    for res, rot in itertools.product(RES, ROT[:2]):
        # a grid across the date line, stored in the 0..360 convention (all longitudes between 180 and 200)
        out.append(dict(mode="grid", res=res, rot=rot, size=[12, 10], lon0=190.0))
    for res, rot in itertools.product(RES, ROT if tier == "thorough" else [ROT[seed % 4], ROT[(seed + 1) % 4]]):
        for layout in ("sparse", "dense") if tier == "thorough" else ("sparse",):
            out.append(dict(mode="model", res=res, rot=rot, layout=layout))
            out.append(dict(mode="model", res=res, rot=rot, layout=layout, numrec=2))
    # releases by lon/lat and lon/lat output on a grid across the date line stored in the 0..360 convention
    out.append(dict(mode="model", res=RES[seed % 3], rot=ROT[(seed + 2) % 4], layout="sparse", lon0=190.0))
    if tier == "quick":
        out.append(dict(mode="model", res=RES[seed % 3], rot=ROT[seed % 2], layout="dense", numrec=2))
        out.append(dict(mode="model", res=RES[(seed + 1) % 3], rot=ROT[seed % 2], layout="dense"))
    for blk in range(16):
        out.append(dict(mode="sampler", block=blk))
    return out


def polar_grid(imax, jmax, res, rot, lon0=10.0):
    """lon/lat arrays [jmax, imax] of a rotated polar-stereographic grid (sphere, true scale 60N)."""
    th = math.radians(rot)
    jj, ii = np.meshgrid(np.arange(jmax), np.arange(imax), indexing="ij")
    x0, y0 = -300000.0, -2400000.0  # somewhere in the Norwegian Sea
    xp = x0 + res * (ii * math.cos(th) - jj * math.sin(th))
    yp = y0 + res * (ii * math.sin(th) + jj * math.cos(th))
    rho = np.hypot(xp, yp)
    lat = 90.0 - 2.0 * np.degrees(np.arctan(rho / (R_EARTH * (1.0 + math.sin(math.radians(60.0))))))
    lon = lon0 + np.degrees(np.arctan2(xp, -yp))
    return lon, lat


def bilin(F, x, y):
    """Reference bilinear interpolation of a global [j, i] array at global (x, y)."""
    i, j = int(math.floor(x)), int(math.floor(y))
    i, j = min(i, F.shape[1] - 2), min(j, F.shape[0] - 2)
    p, q = x - i, y - j
    return (1 - p) * (1 - q) * F[j, i] + p * (1 - q) * F[j, i + 1] + (1 - p) * q * F[j + 1, i] + p * q * F[j + 1, i + 1]


def subgrid_family(imax, jmax):
    xs = [(1, imax - 1), (2, imax - 3), (imax // 3, imax - 1)]
    ys = [(1, jmax - 1), (2, jmax - 2), (1, jmax - jmax // 3)]
    out = [None]
    for (a, b), (c, d) in itertools.product(xs, ys):
        if (a, b, c, d) != (1, imax - 1, 1, jmax - 1):
            out.append([a, b, c, d])
    return out


def lattice(lim, step=0.37):
    i0, i1, j0, j1 = lim
    xs = np.arange(i0 + 0.5 + 0.05, i1 - 1.5, step)
    ys = np.arange(j0 + 0.5 + 0.05, j1 - 1.5, step)
    return [(float(x), float(y)) for x in xs for y in ys]


def run_grid(case):
    from ladim.ROMS import Grid

    imax, jmax = case["size"]
    lon, lat = polar_grid(imax, jmax, case["res"], case["rot"], case.get("lon0", 10.0))
    w = world.World(imax=imax, jmax=jmax, N=2, h=50.0, dx=case["res"], lonlat=(lon, lat))
    d = util.scratch("c16")
    f = w.write_file(d / "g.nc", [dict(t=0, **w.zeros())])
    viols, n, nt = [], 0, 0

    def bad(sig, msg, sg):
        if sum(1 for v in viols if v["sig"] == sig) < 2:
            viols.append(util.viol(sig, f"res={case['res']} rot={case['rot']} size={case['size']} subgrid={sg}: {msg}", case))

    wide = max(imax, jmax) > 100
    for sg in (subgrid_family(imax, jmax) if not wide else [None, [imax // 8, imax - 3, 2, jmax - 2] if imax > jmax else [2, imax - 2, jmax // 8, jmax - 3]]):
        lim = sg or [1, imax - 1, 1, jmax - 1]
        try:
            g = Grid(f, subgrid=sg)
        except BaseException as e:
            bad("grid:refused", repr(e), sg)
            continue
        P = lattice(lim)
        if wide:  # a coarse lattice along the long side, both edges of the short side
            P = [(float(x), float(y)) for x in np.linspace(lim[0] + 0.63, lim[1] - 1.63, 47 if imax > jmax else 3) for y in np.linspace(lim[2] + 0.71, lim[3] - 1.71, 3 if imax > jmax else 47)]
        if not P:
            continue
        X, Y = np.array([p[0] for p in P]), np.array([p[1] for p in P])
        try:
            lo, la = g.xy2ll(X, Y)
            X2, Y2 = g.ll2xy(lo, la)
            lo2, la2 = g.xy2ll(np.asarray(X2), np.asarray(Y2))
        except BaseException as e:
            bad("roundtrip:exception", repr(e), sg)
            continue
        # the alternative grid module ladim.ROMS2 (whole grid only) shares the sampler and the inverse interpolation: same conversions
        if sg is None and not wide:
            try:
                from ladim.ROMS2 import Grid as Grid2

                g2 = Grid2(f)
                lo_b, la_b = g2.xy2ll(X, Y)
                X_b, Y_b = g2.ll2xy(lo, la)
                n += len(X)
                if np.abs(np.asarray(lo_b) - lo).max() > 1e-9 or np.abs(np.asarray(la_b) - la).max() > 1e-9:
                    bad("xy2ll:ROMS2", "ladim.ROMS2.Grid.xy2ll differs from ladim.ROMS.Grid.xy2ll on the same grid file", sg)
                errb = np.hypot(np.asarray(X_b) - X, np.asarray(Y_b) - Y)
                # the solver stops at a squared lon/lat residual of 1e-7: in cells that is sqrt(1e-7) over the smallest extent of a cell in degrees
                cell_deg = min(float(np.hypot(np.diff(lon, axis=1), np.diff(lat, axis=1)).min()), float(np.hypot(np.diff(lon, axis=0), np.diff(lat, axis=0)).min()))
                if not (errb < max(0.05, 2.0 * math.sqrt(1e-7) / cell_deg)).all():
                    kb = int(np.argmax(errb))
                    bad("roundtrip:ROMS2", f"ladim.ROMS2.Grid.ll2xy: position ({X[kb]},{Y[kb]}) comes back as ({np.asarray(X_b)[kb]},{np.asarray(Y_b)[kb]})", sg)
            except BaseException as e:
                bad("roundtrip:exception", f"ladim.ROMS2: {e!r}", sg)
        # one very large conversion (a release file with a quarter of a million rows): every row must be converted
        if sg is None and case["size"] == [12, 10] and case["res"] == RES[0]:
            try:
                big = 250001
                XB = np.linspace(lim[0] + 0.6, lim[1] - 1.6, big)
                YB = np.linspace(lim[3] - 1.6, lim[2] + 0.6, big)
                loB, laB = g.xy2ll(XB, YB)
                XB2, YB2 = g.ll2xy(loB, laB)
                errB = np.hypot(np.asarray(XB2) - XB, np.asarray(YB2) - YB)
                n += big
                if not (errB < 0.05).all():
                    kb = int(np.argmax(errB))
                    bad("roundtrip:large-input", f"ll2xy of {big} positions: row {kb} comes back {errB[kb]} cells away (at ({XB[kb]},{YB[kb]}) -> ({XB2[kb]},{YB2[kb]}))", sg)
            except BaseException as e:
                bad("roundtrip:exception", f"large input: {e!r}", sg)
        # the same array objects converted again after an in-place move (what an IBM or a post-processing loop does)
        try:
            Xm, Ym = X.copy(), Y.copy()
            g.xy2ll(Xm, Ym)
            Xm += 0.21
            Ym -= 0.13
            inside_ = (Xm < lim[1] - 1.0) & (Ym > lim[2])
            lo3, la3 = g.xy2ll(Xm, Ym)
            for k in np.nonzero(inside_)[0][:40]:
                if abs(lo3[k] - bilin(lon, Xm[k], Ym[k])) > 1e-9 or abs(la3[k] - bilin(lat, Xm[k], Ym[k])) > 1e-9:
                    bad("xy2ll:stale-after-in-place-move", f"xy2ll of arrays changed in place since the previous call returns the lon/lat of the previous positions (at ({Xm[k]},{Ym[k]}))", sg)
                    break
        except BaseException as e:
            bad("roundtrip:exception", repr(e), sg)
        # local scale: degrees per cell (smallest direction) for the induced positional bound
        for k, (x, y) in enumerate(P):
            n += 1
            nt += 1
            elo, ela = bilin(lon, x, y), bilin(lat, x, y)
            if abs(lo[k] - elo) > 1e-9 or abs(la[k] - ela) > 1e-9:
                bad("xy2ll", f"at ({x},{y}): ({lo[k]},{la[k]}) expected bilinear interpolation of the global arrays ({elo},{ela})", sg)
            H = (lo2[k] - lo[k]) ** 2 + (la2[k] - la[k]) ** 2
            if not (H < 1e-7):
                bad("roundtrip:residual", f"at ({x},{y}): squared lon/lat residual {H} >= solver tolerance 1e-7", sg)
            dlon_dx, dlat_dx = bilin(lon, x + 0.01, y) - elo, bilin(lat, x + 0.01, y) - ela
            dlon_dy, dlat_dy = bilin(lon, x, y + 0.01) - elo, bilin(lat, x, y + 0.01) - ela
            J = np.array([[dlon_dx, dlon_dy], [dlat_dx, dlat_dy]]) / 0.01
            smin = np.linalg.svd(J, compute_uv=False)[-1]
            tol = 1.5 * math.sqrt(1e-7) / smin + 1e-9
            if math.hypot(X2[k] - x, Y2[k] - y) > tol:
                bad("roundtrip:position", f"at ({x},{y}): back-converted to ({X2[k]},{Y2[k]}), error {math.hypot(X2[k] - x, Y2[k] - y)} cells > bound {tol} induced by the solver tolerance", sg)
    return util.result(evals=n, nontrivial=nt, viol=viols, outcomes=[[case["res"], case["rot"]]], states=n, transitions=n, sample=dict(case, subgrids=len(subgrid_family(imax, jmax))))


def run_model(case):
    imax, jmax = 12, 10
    lon, lat = polar_grid(imax, jmax, case["res"], case["rot"], case.get("lon0", 10.0))
    w = world.World(imax=imax, jmax=jmax, N=2, h=50.0, dx=case["res"], lonlat=(lon, lat))
    d = util.scratch("c16")
    dt = 600
    u = 0.2 * case["res"] / dt
    w.write_file(d / "f.nc", [dict(t=S0, **w.uniform(u, -0.5 * u)), dict(t=S0 + 5 * dt, **w.uniform(u, -0.5 * u))])
    P = lattice([1, imax - 1, 1, jmax - 1], 0.83)
    P = [p for p in P if p[0] < imax - 3.6 and p[1] > 2.1]  # stay inside for 3 steps
    rows = [dict(release_time=world.iso(S0), lon=repr(float(bilin(lon, x, y))), lat=repr(float(bilin(lat, x, y))), Z=1.0) for x, y in P]
    # plus a regular lon/lat lattice (rows sharing a longitude or a latitude), positions known only through their lon/lat
    xs_, ys_ = [3.2, 4.4, 5.6], [3.1, 4.3, 5.2]
    lons = [float(bilin(lon, x, 4.0)) for x in xs_]
    lats = [float(bilin(lat, 4.0, y)) for y in ys_]
    if case["rot"] in (0.0, 30.0):  # for these rotations the whole lon x lat lattice lies well inside the grid
        rows += [dict(release_time=world.iso(S0), lon=repr(lo), lat=repr(la), Z=1.0) for lo in lons for la in lats]
    nlat = len(rows) - len(P)
    numrec = 2 if case.get("numrec") else 0
    conf = drive.roms_conf(d, d / "f.nc", S0, S0 + 3 * dt, dt, rows, outvars=("pid", "X", "Y", "lon", "lat"), layout=case["layout"], numrec=numrec,
                           state=dict(instance_variables=dict(lon="float", lat="float"), default_values=dict(lon=0.0, lat=0.0)))
    viols = []

    def bad(sig, msg):
        if not any(v["sig"] == sig for v in viols):
            viols.append(util.viol(sig, f"{case}: {msg}", case))

    try:
        drive.run_model(conf, d)
        out = world.read_output([d / "out.nc"] if not numrec else [d / "out_000.nc", d / "out_001.nc"], case["layout"])
    except drive.RunFailed as e:
        return util.result(viol=[util.viol("model:crash", f"{case}: {e}", case)], nontrivial=1)
    n = 0
    smin = case["res"] / 111000.0 * 0.4  # conservative degrees per cell
    for ri, rec in enumerate(out["records"]):
        X, Y = np.asarray(rec["vars"]["X"], float), np.asarray(rec["vars"]["Y"], float)
        lo, la = np.asarray(rec["vars"]["lon"], float), np.asarray(rec["vars"]["lat"], float)
        if len(X) != len(rows):
            bad("model:count", f"record {ri} has {len(X)} particles expected {len(rows)}")
            break
        for k in range(len(rows)):
            n += 1
            if ri == 0:
                # the release position reproduces the given lon/lat (to the solver tolerance)
                H = (bilin(lon, X[k], Y[k]) - float(rows[k]["lon"])) ** 2 + (bilin(lat, X[k], Y[k]) - float(rows[k]["lat"])) ** 2
                if not H < 1e-7:
                    bad("release:lonlat", f"particle {k} released at ({X[k]},{Y[k]}) whose interpolated lon/lat misses the given one by squared residual {H}")
                if k < len(P) and math.hypot(X[k] - P[k][0], Y[k] - P[k][1]) > 1.5 * math.sqrt(1e-7) / smin:
                    bad("release:position", f"particle {k} released at ({X[k]},{Y[k]}) expected ({P[k][0]},{P[k][1]})")
            if abs(lo[k] - bilin(lon, X[k], Y[k])) > 1e-9 or abs(la[k] - bilin(lat, X[k], Y[k])) > 1e-9:
                bad("output:lonlat", f"record {ri} particle {k}: lon/lat ({lo[k]},{la[k]}) is not the bilinear interpolation at its own X,Y ({bilin(lon, X[k], Y[k])},{bilin(lat, X[k], Y[k])})")
    return util.result(evals=n, nontrivial=n, viol=viols, outcomes=[["model", case["layout"]]], states=n, transitions=n, sample=dict(case, particles=len(rows), lonlat_lattice_rows=nlat))


# ------------------------------------------------------------------ sampler
def ref_sample(F, x, y, mask, undef, outside):
    jmax, imax = F.shape
    if x < 0 or x >= imax - 1 or y < 0 or y >= jmax - 1:
        return ("outside", outside)
    i, j = int(x), int(y)
    p, q = x - i, y - j
    ws = [((1 - p) * (1 - q), j, i), ((1 - p) * q, j + 1, i), (p * (1 - q), j, i + 1), (p * q, j + 1, i + 1)]
    if mask is not None:
        ws = [(wgt * mask[jj, ii], jj, ii) for wgt, jj, ii in ws]
    sw = sum(wg for wg, _, _ in ws)
    if sw <= 0:
        return ("undef", undef)
    return ("value", sum(wg * F[jj, ii] for wg, jj, ii in ws) / sw)


def run_sampler(case):
    from ladim.sample import sample2D

    viols, n, nt = [], 0, 0
    outcomes = set()

    def bad(sig, msg, sub):
        if sum(1 for v in viols if v["sig"] == sig) < 2:
            viols.append(util.viol(sig, msg, dict(case, only=sub)))

    jj, ii = np.meshgrid(np.arange(3), np.arange(3), indexing="ij")
    fields = dict(bilinear=1.0 + 2.0 * ii - 0.5 * jj + 0.25 * ii * jj, generic=((ii * 5 + jj * 3) % 8) / 4.0 - 0.75)
    pos = np.arange(-0.5, 2.5 + 1e-9, 0.25)
    XY = [(float(x), float(y)) for x in pos for y in pos]
    # positions a hair away from nodes and edges: tiny but non-zero weights must still count
    for e in (1e-6, 1e-9):
        XY += [(1.0 - e, 1.0 - e), (1.0 + e, 1.0 - e), (e, 1.0 + e), (1.0 - e, 0.5), (0.5, 1.0 + e), (2.0 - e, 2.0 - e)]
    only = case.get("only")
    for mi in range(case["block"] * 32, case["block"] * 32 + 32):
        bits = [(mi >> k) & 1 for k in range(9)]
        mask = None if mi == 511 else np.array(bits, float).reshape(3, 3)  # 511 = nothing masked -> also test mask=None
        masks = [mask] if mi != 511 else [None, np.ones((3, 3))]
        for mk in masks:
            for fname, F in fields.items():
                for undef, outside in itertools.product([0.0, -99.0], [None, -1.0, 0.0, 5.0]):
                    sub = [mi, fname, undef, outside, mk is None]
                    if only and only != sub:
                        continue
                    inside = [(x, y) for x, y in XY if 0 <= x < 2 and 0 <= y < 2]
                    for pts, label in ((inside, "inside"), (XY, "all")):
                        X, Y = np.array([p[0] for p in pts]), np.array([p[1] for p in pts])
                        exp = [ref_sample(F, x, y, mk, undef, outside) for x, y in pts]
                        n += len(pts)
                        if mk is not None and 0 < mk.sum() < 9 or label == "all":
                            nt += len(pts)
                        F_before = F.copy()
                        try:
                            got = sample2D(F, X, Y, mask=mk, undef_value=undef, outside_value=outside)
                            if not np.array_equal(F, F_before):
                                bad("sampler:modifies-input", f"mask#{mi} {fname}: sample2D changed the field array it was given", sub)
                                F[...] = F_before
                        except ValueError as e:
                            if label == "all" and outside is None:
                                outcomes.add("ValueError")
                                continue  # required: points outside and no substitute value
                            bad("sampler:exception", f"mask#{mi} {fname} undef={undef} outside={outside} {label}: {e!r}", sub)
                            continue
                        except Exception as e:
                            bad("sampler:exception", f"mask#{mi} {fname} {label}: {e!r}", sub)
                            continue
                        if label == "all" and outside is None:
                            bad("sampler:outside-not-refused", f"mask#{mi} {fname}: points outside the grid and outside_value=None did not raise ValueError", sub)
                            continue
                        got = np.asarray(got, float)
                        for k, (kind, e) in enumerate(exp):
                            outcomes.add(kind)
                            if abs(got[k] - e) > 1e-12 * max(1.0, abs(e)) + (1e-6 if kind == "value" and min(abs(pts[k][0] - round(pts[k][0])), abs(pts[k][1] - round(pts[k][1]))) < 1e-5 and mk is not None else 0.0) * 0:
                                sig = dict(outside="sampler:outside-value" + (":zero" if outside == 0.0 else ""), undef="sampler:undef-value", value="sampler:value")[kind]
                                bad(sig, f"mask#{mi} {fname} undef={undef} outside={outside} at {pts[k]}: {got[k]} expected {e} ({kind})", sub)
                                break
                            if kind == "value" and mk is not None:
                                corners = [F[j, i] for j in (int(pts[k][1]), int(pts[k][1]) + 1) for i in (int(pts[k][0]), int(pts[k][0]) + 1) if mk[j, i] > 0]
                                if corners and not (min(corners) - 1e-12 <= got[k] <= max(corners) + 1e-12):
                                    bad("sampler:not-convex", f"mask#{mi} at {pts[k]}: {got[k]} outside the unmasked corner range", sub)
    # a 4x5 field, scalar arguments and exactness on a bilinear field without mask
    F = np.fromfunction(lambda j, i: 0.5 + 1.5 * i - 2.0 * j + 0.125 * i * j, (4, 5))
    for x in np.arange(0, 3.99, 0.25):
        for y in np.arange(0, 2.99, 0.25):
            n += 1
            e = 0.5 + 1.5 * x - 2.0 * y + 0.125 * x * y
            try:
                g = float(sample2D(F, np.array([x]), np.array([y]))[0])
            except Exception as ex:
                bad("sampler:exception", f"4x5 at ({x},{y}): {ex!r}", None)
                break
            if abs(g - e) > 1e-12:
                bad("sampler:not-exact-on-bilinear", f"4x5 bilinear field at ({x},{y}): {g} expected {e}", None)
    # fields of other dtypes (bytes, packed 16-bit integers, single precision): the sampled value is the bilinear combination of the corner VALUES,
    # whatever the storage type - differences of neighbouring corners do not fit into the unsigned / 16-bit types used here
    if case["block"] == 0:
        for dt_, vals in (("uint8", [250, 3, 200, 40, 255]), ("uint16", [65000, 10, 40000, 200, 65535]), ("int16", [30000, -30000, 25000, -32000, 32767]),
                          ("int32", [2000000000, -2000000000, 5, -7, 2147483647]), ("float32", [1.5, -2.25, 1e6, -1e6, 0.125]), ("int64", [2 ** 40, -(2 ** 40), 7, 2 ** 53 + 2, 0])):
            F = np.array([[vals[(i + 2 * j) % 5] for i in range(5)] for j in range(4)], dtype=dt_)
            Ff = F.astype(float)
            F_before = F.copy()
            for x in np.arange(0, 3.99, 0.25):
                for y in np.arange(0, 2.99, 0.25):
                    n += 1
                    i0, j0 = int(x), int(y)
                    p_, q_ = x - i0, y - j0
                    e = (1 - p_) * (1 - q_) * Ff[j0, i0] + p_ * (1 - q_) * Ff[j0, i0 + 1] + (1 - p_) * q_ * Ff[j0 + 1, i0] + p_ * q_ * Ff[j0 + 1, i0 + 1]
                    try:
                        g = float(sample2D(F, np.array([x]), np.array([y]))[0])
                    except Exception as ex:
                        bad("sampler:exception", f"{dt_} field at ({x},{y}): {ex!r}", None)
                        break
                    if abs(g - e) > (1e-6 if dt_ == "float32" else 1e-12) * max(1.0, float(np.abs(Ff).max())):
                        bad("sampler:value:dtype", f"{dt_} field at ({x},{y}): {g} expected {e} (corners {Ff[j0:j0 + 2, i0:i0 + 2].tolist()})", None)
                        break
            if not np.array_equal(F, F_before):
                bad("sampler:modifies-input", f"{dt_} field changed by sample2D", None)
    return util.result(evals=n, nontrivial=nt, viol=viols, outcomes=sorted(outcomes), states=n, transitions=n,
                       sample=dict(case, masks=f"{case['block'] * 32}..{case['block'] * 32 + 31}", positions=len(XY)))


def warmup():
    pass


def run_case(case):
    return dict(grid=run_grid, model=run_model, sampler=run_sampler)[case["mode"]](case)
