"""C04 - release accounting: each scheduled row yields exactly mult particles on time.

All release tables up to a bound (times on the step grid, sorted in simulation order) x modes,
fed to the real TimeKeeper + State + ParticleReleaser; after each update() the newly appended
particles are compared with a reference schedule written from the statement.
"""

from __future__ import annotations

import itertools
from io import StringIO

import numpy as np

from mc import util, world

ID = "C04"
LEVEL = "model_checking"
RULE = (
    "all tables with <= R rows: times = every multiset of step slots {-1..Nsteps+1} in simulation order, mult in {0,1,2}, "
    "2 positions, x {X/Y, lon/lat} x {header, names} x {mult column or not} x {discrete, continuous f=1, f=2 steps} x {forward, reversed}; "
    "non-trivial = at least one row inside and one row outside the window, or >= 2 release steps; lattice points distinct by construction"
)
RULE += " Beyond the lattice (chosen scenarios, not enumerated): tables of 65 000 rows and 3300 continuous ticks; release_time of the new particles."
ASSUMPTIONS = ["release times on the model time grid (and on the tick grid in continuous mode)", "fake affine grid for lon/lat conversion"]

S0 = world.tosec("2020-01-01T00:00:00")
DT = 60
POS = [(3.0, 4.0, 5.0), (6.5, 2.25, 0.0)]


def bounds(tier, seed):
    return dict(nsteps=[2, 3] if tier == "quick" else [1, 2, 3, 4], rows_full=2, rows_slice=3)


VARIANTS = list(itertools.product(["xy", "ll", "both"], [True, False], [True, False], ["discrete", "discrete+freq", "cont1", "cont2"], [False, True]))


def cases(tier, seed):
    b = bounds(tier, seed)
    out = []
    for n in b["nsteps"]:
        for vi, var in enumerate(VARIANTS):
            special = var[0] == "both" or var[3] == "discrete+freq"  # added for seeded changes: in quick only the small tables
            if tier == "quick" and special:
                if n == 2:
                    out.append(dict(mode="tables", nsteps=n, variant=list(var), rows=[1, 2]))
                continue
            if tier == "thorough" or n == 3 or (vi + seed) % 3 == 0:
                out.append(dict(mode="tables", nsteps=n, variant=list(var), rows=[1, 2]))
            # 3-row tables: thorough = all variants; quick = a seed-chosen sixth of the variants at Nsteps=2
            if tier == "thorough" or (n == 2 and (vi + seed) % 6 == 0):
                for first in range(-1, n + 2):
                    out.append(dict(mode="tables", nsteps=n, variant=list(var), rows=[3], first_slot=first))
    # beyond the lattice: tens of thousands of rows (one release time alone has more rows than fit in 15 or 16 bits)
    for rev, cont in itertools.product([False, True], [False, True]):
        out.append(dict(mode="big", rev=rev, cont=cont))
    return out


def tables(nsteps, rows, first_slot=None):
    slots = list(range(-1, nsteps + 2))
    for R in rows:
        for times in itertools.combinations_with_replacement(slots, R):
            if first_slot is not None and times[0] != first_slot:
                continue
            for mults in itertools.product([0, 1, 2], repeat=R):
                if R == 3 and mults[1] == 0:
                    continue  # keep the 3-row slice affordable
                for pos in itertools.product([0, 1], repeat=R):
                    if R >= 2 and pos[0] == 1:
                        continue
                    yield [dict(slot=t, mult=m, pos=p, farmid=(100 + 10 * i + p) if p == 0 else 2 ** 53 + 1 + 2 * i, super=0.5 + i) for i, (t, m, p) in enumerate(zip(times, mults, pos))]


def reference(table, nsteps, mode, has_mult):
    """Expected releases per step: list over steps of [(row index)] in order, replicated mult times."""
    sched = {n: [] for n in range(nsteps)}
    mult = lambda r: r["mult"] if has_mult else 1  # noqa: E731
    if mode in ("discrete", "discrete+freq"):
        for i, r in enumerate(table):
            if 0 <= r["slot"] < nsteps:
                sched[r["slot"]] += [i] * mult(r)
    else:
        f = 1 if mode == "cont1" else 2
        ftimes = sorted({r["slot"] for r in table})
        tick = ftimes[0]
        while tick < nsteps:  # ticks until stop (exclusive), counted from the first file time
            cur = max(t for t in ftimes if t <= tick)
            if tick >= 0:
                for i, r in enumerate(table):
                    if r["slot"] == cur:
                        sched[tick] += [i] * mult(r)
            tick += f
    return sched


def on_tick_grid(table, mode):
    if mode in ("discrete", "discrete+freq"):
        return True
    f = 1 if mode == "cont1" else 2
    t0 = table[0]["slot"]
    return all((r["slot"] - t0) % f == 0 for r in table)


def with_hatch(coords, header):
    """The time-typed extra column is left out in one slice, so that a release block can be purely numeric."""
    return not (coords == "xy" and not header)


def render(table, coords, header, has_mult, sgn):
    cols = (["mult"] if has_mult else []) + ["release_time"] + dict(xy=["X", "Y"], ll=["lon", "lat"], both=["X", "Y", "lon", "lat"])[coords] + ["Z", "farmid", "super"] + (["hatch"] if with_hatch(coords, header) else [])
    lines = []
    if header:
        lines.append(" ".join(cols))
    for r in table:
        x, y, z = POS[r["pos"]]
        lo, la = x, y
        if coords == "ll":
            x, y = 5.0 + 0.01 * x, 60.0 + 0.005 * y
            lo, la = x, y
        if coords == "both":  # both given: the grid position is used, the lon/lat columns are ordinary extra values (deliberately inconsistent)
            lo, la = 7.25 + r["pos"], 61.5 - r["pos"]
        vals = dict(mult=r["mult"], release_time=world.iso(S0 + sgn * r["slot"] * DT), X=x, Y=y, lon=lo, lat=la, Z=z,
                    farmid=r["farmid"], super=r["super"], hatch=world.iso(S0 - 86400 - 3600 * (r["farmid"] % 1000)))
        lines.append(" ".join(str(vals[c]) for c in cols))
    return "\n".join(lines) + "\n", cols


def run_table(table, nsteps, variant, decoy_first=False):
    from ladim.release import ParticleReleaser
    from ladim.state import State
    from ladim.timekeeper import TimeKeeper

    from mc.drive import PLUG
    import importlib.util

    coords, header, has_mult, mode, rev = variant
    sgn = -1 if rev else 1
    text, cols = render(table, coords, header, has_mult, sgn)
    global _AGRID
    try:
        _AGRID
    except NameError:
        spec = importlib.util.spec_from_file_location("agrid_c04", PLUG / "agrid.py")
        _AGRID = importlib.util.module_from_spec(spec)
        spec.loader.exec_module(_AGRID)
    grid = _AGRID.Grid()
    # defaults exist for variables that the release rows also provide: the row's value must win
    ivars = dict(farmid=int, super=float)
    if coords == "both":
        ivars.update(lon=float, lat=float)
    pvars_ = dict(release_time="time", hatch="time") if with_hatch(coords, header) else dict(weightless=float)
    st = State(instance_variables=ivars, particle_variables=pvars_, default_values=dict(super=-1.0, Z=-7.0, farmid=-1, **({} if with_hatch(coords, header) else dict(weightless=0.0))))
    tk = TimeKeeper(start=world.iso(S0), stop=world.iso(S0 + sgn * nsteps * DT), dt=DT, time_reversal=rev)
    sched = reference(table, nsteps, mode, has_mult)
    total = sum(len(v) for v in sched.values())
    kw = dict(names=None if header else cols)
    if mode == "discrete+freq":  # a discrete release with a left-over release_frequency (continuous not set): still discrete
        kw.update(release_frequency=DT)
    elif mode != "discrete":
        kw.update(continuous=True, release_frequency=DT * (1 if mode == "cont1" else 2))
    # the release file is a real file, and it is the SAME path for every table of this process (a driver that rewrites its release
    # file for each experiment): whatever was parsed for the previous table must not be served again
    path = util.scratch_root() / "c04_release.rls"
    if decoy_first:  # replay of a single table: give it a predecessor under the same path
        path.write_text("release_time X Y Z\n" + world.iso(S0) + " 1.0 1.0 1.0\n" if header else world.iso(S0) + " 1.0 1.0 1.0\n")
        try:
            ParticleReleaser(dict(time=tk, state=State(), grid=grid), str(path), names=None if header else ["release_time", "X", "Y", "Z"])
        except BaseException:
            pass
    path.write_text(text)
    try:
        rel = ParticleReleaser(dict(time=tk, state=st, grid=grid), str(path), **kw)
    except SystemExit:
        if total == 0:
            return None, "refused-empty"  # nothing to release: refusing is C20's business
        return ("refused", f"valid table refused (SystemExit); {total} particles expected"), "refused"
    except Exception as e:
        return ("exception:init", repr(e)), "exc"
    for n in range(nsteps):
        before = int(st.npid)
        try:
            tk.update()
            rel.update()
        except Exception as e:
            return ("exception:update", f"step {n}: {e!r}"), "exc"
        newmask = st.pid >= before
        got = list(zip(st.X[newmask].tolist(), st.Y[newmask].tolist(), st.Z[newmask].tolist(), st.farmid[newmask].tolist(), st.super[newmask].tolist()))
        hatch = [np.datetime64(h, "s") for h in st.variables["hatch"][before:]] if with_hatch(coords, header) else None
        exp = []
        for i in sched[n]:
            x, y, z = POS[table[i]["pos"]]
            exp.append((x, y, z, table[i]["farmid"], table[i]["super"]))
        exph = [np.datetime64(world.iso(S0 - 86400 - 3600 * (table[i]["farmid"] % 1000)), "s") for i in sched[n]]
        if len(got) != len(exp):
            return ("count", f"step {n}: {len(got)} new particles expected {len(exp)} (rows {sched[n]})"), "bad"
        close = all(abs(g[0] - e[0]) < 1e-9 and abs(g[1] - e[1]) < 1e-9 and g[2:] == e[2:] for g, e in zip(got, exp))
        if not close:
            same_set = sorted(got) == sorted(exp) or all(any(abs(g[0] - e[0]) < 1e-9 and abs(g[1] - e[1]) < 1e-9 and g[2:] == e[2:] for e in exp) for g in got)
            return ("order" if same_set else "values", f"step {n}: new particles {got} expected {exp}"), "bad"
        if hatch is not None and hatch != exph:
            return ("values:time-column", f"step {n}: hatch {hatch} expected {exph}"), "bad"
        if hatch is not None:  # release_time is declared as a state variable: it is the time of the release (the tick, in continuous mode)
            rt = [np.datetime64(t, "s") for t in st.variables["release_time"][before:]]
            if rt != [np.datetime64(world.iso(S0 + sgn * n * DT), "s")] * len(exp):
                return ("values:release-time", f"step {n}: release_time of the new particles {rt} expected the time of this step {world.iso(S0 + sgn * n * DT)}"), "bad"
        if coords == "both":
            gl = list(zip(st["lon"][newmask].tolist(), st["lat"][newmask].tolist()))
            el = [(7.25 + table[i]["pos"], 61.5 - table[i]["pos"]) for i in sched[n]]
            if gl != el:
                return ("values:lonlat-columns", f"step {n}: lon/lat columns carried as {gl} expected {el} (X, Y given as well)"), "bad"
        if st.pid.tolist() != list(range(int(st.npid))):
            return ("pids", f"step {n}: pids {st.pid.tolist()}"), "bad"
    return None, f"ok{total}"


def run_tables(case):
    n = nt = 0
    viols, outcomes = [], set()
    variant = case["variant"]
    coords, header, has_mult, mode, rev = variant
    for table in tables(case["nsteps"], case["rows"], case.get("first_slot")):
        if not on_tick_grid(table, mode):
            continue
        res, outc = run_table(table, case["nsteps"], variant)
        n += 1
        outcomes.add(outc)
        inside = [r for r in table if 0 <= r["slot"] < case["nsteps"]]
        if (inside and len(inside) < len(table)) or len({r["slot"] for r in inside}) >= 2:
            nt += 1
        if res is not None and sum(1 for v in viols if v["sig"].startswith(res[0])) < 2:
            sig = res[0] + (":reversed" if rev and res[0] in ("order", "values", "count") else "")
            viols.append(util.viol(sig, f"Nsteps={case['nsteps']} variant={variant} table={[(r['slot'], r['mult'], r['pos']) for r in table]}: {res[1]}",
                                   dict(mode="one", nsteps=case["nsteps"], variant=variant, table=table)))
    return util.result(evals=n, nontrivial=nt, viol=viols, outcomes=sorted(outcomes), states=n * case["nsteps"], transitions=n * case["nsteps"],
                       sample=dict(nsteps=case["nsteps"], variant=variant, example_table=[dict(slot=0, mult=2, pos=0), dict(slot=case["nsteps"], mult=1, pos=1)]))


def run_big(case):
    """Three release times with 20000 + 45000 + 7 rows (discrete), or 11 rows released at 3300 ticks (continuous): counts and row order per step."""
    from ladim.release import ParticleReleaser
    from ladim.state import State
    from ladim.timekeeper import TimeKeeper
    from mc.drive import PLUG
    import importlib.util

    rev, cont = case["rev"], case["cont"]
    sgn = -1 if rev else 1
    spec = importlib.util.spec_from_file_location("agrid_c04b", PLUG / "agrid.py")
    ag = importlib.util.module_from_spec(spec)
    spec.loader.exec_module(ag)
    if cont:
        nsteps, blocks = 3300, [(0, 11)]
    else:
        nsteps, blocks = 4, [(0, 20000), (1, 45000), (3, 7)]
    lines, k = ["release_time X Y Z farmid"], 0
    exp = {}
    for slot, nrows in blocks:
        t = world.iso(S0 + sgn * slot * DT)
        exp[slot] = list(range(k, k + nrows))
        lines += [f"{t} {3.0 + (i % 8) * 0.25} 4.5 5.0 {i}" for i in range(k, k + nrows)]
        k += nrows
    st = State(instance_variables=dict(farmid=int))
    tk = TimeKeeper(start=world.iso(S0), stop=world.iso(S0 + sgn * nsteps * DT), dt=DT, time_reversal=rev)
    kw = dict(continuous=True, release_frequency=DT) if cont else {}
    viols = []
    try:
        rel = ParticleReleaser(dict(time=tk, state=st, grid=ag.Grid()), StringIO("\n".join(lines) + "\n"), **kw)
        for n in range(nsteps):
            before = int(st.npid)
            tk.update()
            rel.update()
            got = st.farmid[st.pid >= before].tolist()
            want = exp[0] if cont else exp.get(n, [])
            if got != want:
                what = f"{len(got)} new particles expected {len(want)}" if len(got) != len(want) else f"row order differs first at {next(i for i, (a, b) in enumerate(zip(got, want)) if a != b)}"
                viols.append(util.viol("big:count" if len(got) != len(want) else "big:order", f"{case} step {n}: {what}", case))
                break
            if cont and n % 50:
                st["alive"][:] = False  # keep the state small: the property is about what is released at each tick
                st.compactify()
    except Exception as e:
        viols.append(util.viol("big:exception", f"{case}: {e!r}", case))
    return util.result(evals=nsteps, nontrivial=nsteps, viol=viols, outcomes=[["big", len(viols)]], states=nsteps, transitions=nsteps, sample=dict(case))


def run_case(case):
    if case["mode"] == "big":
        return run_big(case)
    if case["mode"] == "tables":
        return run_tables(case)
    if case["mode"] == "one":
        res, outc = run_table(case["table"], case["nsteps"], case["variant"], decoy_first=True)
        v = []
        if res is not None:
            rev = case["variant"][4]
            sig = res[0] + (":reversed" if rev and res[0] in ("order", "values", "count") else "")
            v = [util.viol(sig, res[1], case)]
        return util.result(viol=v, outcomes=[outc])
    raise util.HarnessError(case)
