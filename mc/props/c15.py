"""C15 - depth stays within the water column (reflecting boundaries).

Real Tracker/State with a plug-in grid whose depth differs between neighbouring cells, scripted vertical
diffusion draws and a plug-in forcing supplying w; a slice on the real ROMS Grid (bathymetry lookup).
"""

from __future__ import annotations

import importlib.util
import itertools

import numpy as np

from mc import drive, scriptrng, util, world

ID = "C15"
LEVEL = "model_checking"
RULE = (
    "h in {1, 7.5, 50, 4000} x neighbour deeper/shallower x start depth {0, h/4, h/2, h-eps, h} x vertical displacement {0, +-eps, +-h/2, +-0.99h} "
    "from diffusion / from w / split between both x scheme x flow that does or does not carry the particle into the neighbour cell x 2 steps; "
    "both switches off: Z bit-identical; non-trivial = a displacement that crosses the surface or the bottom; lattice points distinct by construction"
)
RULE += " Beyond the lattice (chosen scenarios, not enumerated): a 200x220 grid; one random value per step so that the oracle is independent of how the tracker draws."
ASSUMPTIONS = ["|vertical displacement| < h (the statement's condition)", "bottom depth of the cell occupied when the step began"]

S0 = world.tosec("2020-01-01T00:00:00")
DT = 600
HS = [1.0, 7.5, 50.0, 4000.0]

_mods = {}


def plugin(name):
    if name not in _mods:
        spec = importlib.util.spec_from_file_location("c15_" + name, drive.PLUG / (name + ".py"))
        m = importlib.util.module_from_spec(spec)
        spec.loader.exec_module(m)
        _mods[name] = m
    return _mods[name]


def bounds(tier, seed):
    return dict(h=HS, schemes=["EF", "RK2", "RK4"], modes=["diff", "w", "both", "both-opposed", "off", "diff+hdiff"], flows=["stay", "east-into-deeper", "west-into-shallower"], steps=2)


def cases(tier, seed):
    out = []
    deep = dict(deep=True) if tier == "thorough" else {}  # thorough: more depths, more start depths and displacements, four steps
    for h, sch, mode, flow in itertools.product(HS + ([0.5, 20.0, 300.0] if deep else []), ["EF", "RK2", "RK4"], ["diff", "w", "both", "both-opposed", "off", "diff+hdiff"], ["stay", "east", "west"]):
        out.append(dict(mode="plug", h=h, scheme=sch, vmode=mode, flow=flow, **deep))
    # the same lattice slice with the clock running backwards (vertical advection follows the reversed flow, the random walk is what it is)
    for h, sch, mode, flow in itertools.product(HS[1:3], ["EF", "RK4"], ["diff", "w", "both", "both-opposed", "off"], ["stay", "east"]):
        out.append(dict(mode="plug", h=h, scheme=sch, vmode=mode, flow=flow, rev=True, **deep))
    for h, vm, adv in itertools.product(HS, ["diff", "w", "both"], ["", "EF"]):
        out.append(dict(mode="reshuffle", h=h, vmode=vm, scheme=adv))
    for mode in ("diff", "w", "both"):
        for sg in (None, [2, 8, 1, 6], [3, 9, 1, 7], [1, 7, 2, 7]):
            out.append(dict(mode="roms", vmode=mode, subgrid=sg))
        out.append(dict(mode="roms", vmode=mode, subgrid=None if mode != "w" else [20, 199, 30, 219], big=True))
    return out


def displacements(h, deep=False):
    eps = h * 2.0 ** -10
    out = [0.0, eps, -eps, h / 2, -h / 2, 0.99 * h, -0.99 * h]
    if deep:
        out += [h / 8, -h / 8, h / 4, -h / 4, 0.75 * h, -0.75 * h, 0.9 * h, -0.9 * h, h - eps, -(h - eps)]
    return out


def plan(hcell, vmode, d, deep=False):
    """One run = one displacement d for every particle (the generator hands out ONE value per step, so the result does not depend on
    how the tracker draws); particles = start depths. Returns Z0, diffusion part, w part (metres per step)."""
    eps = hcell * 2.0 ** -10
    Z0 = np.array([0.0, hcell / 4, hcell / 2, hcell - eps, hcell] + ([eps, hcell / 8, 0.75 * hcell, hcell - 2 * eps] if deep else []))
    fd, fw = dict(diff=(1, 0), w=(0, 1), both=(0.75, 0.25), off=(0, 0))[vmode] if vmode in ("diff", "w", "both", "off") else ((1, 0) if vmode == "diff+hdiff" else (1.25, -0.25))
    return Z0, np.full(len(Z0), fd * d), np.full(len(Z0), fw * d)


def reflect(z, h):
    if z < 0:
        z = -z
    if z > h:
        z = 2 * h - z
    return z


def run_plug(case):
    h0, flow = case["h"], case["flow"]
    hstart = 2 * h0 if dict(stay=3.2, east=4.3, west=5.2)[flow] >= 4.5 else h0
    viols, nt, n = [], 0, 0
    for d in displacements(hstart, bool(case.get("deep"))):
        v, t, m = run_plug_one(case, d)
        nt, n = nt + t, n + m
        for x in v:
            if not any(y["sig"] == x["sig"] for y in viols):
                viols.append(x)
    return util.result(evals=2 * n, nontrivial=nt, viol=viols, outcomes=[[case["vmode"], flow]], states=2 * n, transitions=2 * n, sample=dict(case, particles=n))


def run_plug_one(case, d):
    from ladim.state import State
    from ladim.timekeeper import TimeKeeper
    from ladim.tracker import Tracker

    h0, vmode, flow = case["h"], case["vmode"], case["flow"]
    mods = {}
    rev = bool(case.get("rev"))
    mods["time"] = TimeKeeper(start=world.iso(S0), stop=world.iso(S0 + (-100 if rev else 100) * DT), dt=DT, time_reversal=rev)
    mods["state"] = st = State()
    mods["grid"] = g = plugin("agrid").Grid(modules=mods, imax=12, jmax=9, dx=100.0, h=h0, hmode="step")  # cells i>=5 are twice as deep
    x0, vx = dict(stay=(3.2, 0.05), east=(4.3, 0.45), west=(5.2, -0.45))[flow]
    hstart = 2 * h0 if x0 >= 4.5 else h0
    Z0, dd, dw = plan(hstart, vmode, d, bool(case.get("deep")))
    n = len(Z0)
    mods["forcing"] = fo = plugin("aforce").Forcing(mods, field="const", params=dict(a=vx / DT, b=0.0, L=100.0), w=list(dw / DT), record=False)
    Dz = 1.0 / (2 * DT)  # sqrt(2 Dz dt) = 1 m per unit normal deviate
    kw = dict(advection=case["scheme"], modules=mods)
    if vmode in ("diff", "both", "both-opposed", "diff+hdiff"):
        kw["vertdiff"] = Dz
    if vmode in ("w", "both", "both-opposed"):
        kw["vertical_advection"] = True
    if vmode == "diff+hdiff":
        kw["diffusion"] = 1e-12
    tr = Tracker(**kw)
    mods["tracker"] = tr
    tr.rng = rng = scriptrng.Constant([float(dd[0])] * 4)  # sqrt(2 Dz dt) = 1 m: the value IS the vertical random displacement
    st.append(X=np.full(n, x0), Y=np.full(n, 4.2), Z=Z0)
    if flow == "stay":
        st["active"][::2] = False  # settled particles: not moved horizontally, but the water column still bounds their depth
    viols, nt = [], 0

    def bad(sig, msg):
        if not any(v["sig"] == sig for v in viols):
            viols.append(util.viol(sig, f"{case}: {msg}", case))

    exp = Z0.copy()
    xs = x0
    for step in range(4 if case.get("deep") else 2):
        mods["time"].update()
        fo.update()
        if step:
            rng.next_step()
        hcell = 2 * h0 if round(xs) >= 5 else h0
        zbefore = st.Z.copy()
        try:
            tr.update()
        except util.HarnessError:
            raise
        except Exception as e:
            bad("exception", f"step {step}: {e!r}")
            break
        xs = float(st.X[0])
        for k in range(n):
            if vmode == "off":
                if st.Z[k] != zbefore[k]:
                    bad("off:not-identical", f"step {step} particle {k}: Z {zbefore[k]} -> {st.Z[k]} with vertical processes off")
                continue
            if abs(dd[k] + (-1 if rev else 1) * dw[k]) >= hcell:
                exp[k] = float(st.Z[k])  # (the reference follows the particle from where it is now)
                continue  # outside the statement's condition (can happen in step 2 after moving to a shallower cell)
            z = exp[k]
            if vmode in ("diff", "both", "both-opposed", "diff+hdiff"):
                z = z + (2 * Dz / DT) ** 0.5 * dd[k] * DT
            if vmode in ("w", "both", "both-opposed"):
                z = z + (-1 if rev else 1) * (dw[k] / DT) * DT  # tracked backwards, the particle rises where the water sinks
            crossed = z < 0 or z > hcell
            if crossed:
                nt += 1
            if exp[k] > hcell:  # start depth below the new cell's bottom: outside the quantifier
                exp[k] = float(st.Z[k])
                continue
            z = reflect(z, hcell)
            exp[k] = z
            got = float(st.Z[k])
            if not (-1e-12 <= got <= hcell * (1 + 1e-12)):
                bad("outside-water-column", f"step {step} particle {k}: Z={got} not in [0, {hcell}] (start {zbefore[k]}, displacement {dd[k] + dw[k]}, bottom of start cell {hcell})")
            elif abs(got - z) > 1e-9 * max(1.0, hcell):
                bad("reflection-value", f"step {step} particle {k}: Z={got} expected {z} (start {zbefore[k]}, displacement {dd[k] + dw[k]}, h={hcell})")
    return viols, nt, n


def run_reshuffle(case):
    """No horizontal motion, but the particle <-> array-slot mapping changes between steps (death + compactify + release
    with an unchanged particle count): the bottom depth must be that of each particle's own cell at the start of the step."""
    from ladim.state import State
    from ladim.timekeeper import TimeKeeper
    from ladim.tracker import Tracker

    h0, vmode = case["h"], case["vmode"]
    mods = {}
    mods["time"] = TimeKeeper(start=world.iso(S0), stop=world.iso(S0 + 100 * DT), dt=DT)
    mods["state"] = st = State()
    mods["grid"] = plugin("agrid").Grid(modules=mods, imax=12, jmax=9, dx=100.0, h=h0, hmode="step")
    n = 6
    # even h0-indexed cases: deep water only at the first step (the shallow particle arrives at step 1); others: mixed from the start
    deep_first = int(round(h0 * 2)) % 4 != 0
    xs = [6.2 if (deep_first or k % 2) else 3.2 for k in range(n)]
    hs = [h0 if x < 4.5 else 2 * h0 for x in xs]
    d = 0.3 * h0
    dd = np.full(n, d if vmode != "w" else 0.0) * (0.75 if vmode == "both" else 1.0)
    dw = np.full(n, d if vmode == "w" else (0.25 * d if vmode == "both" else 0.0))
    mods["forcing"] = fo = plugin("aforce").Forcing(mods, field="still", w=list(dw / DT), record=False)
    kw = dict(advection=case["scheme"], modules=mods)
    if vmode in ("diff", "both"):
        kw["vertdiff"] = 1.0 / (2 * DT)
    if vmode in ("w", "both"):
        kw["vertical_advection"] = True
    tr = Tracker(**kw)
    mods["tracker"] = tr
    tr.rng = rng = scriptrng.Constant([float(dd[0])] * 4)
    # shallow-cell particles start near their bottom (they pass it), deep-cell particles at mid depth (nobody passes the deepest bottom)
    st.append(X=np.array(xs), Y=np.full(n, 4.2), Z=np.array([0.9 * h if h == h0 else 0.5 * h for h in hs]))
    viols = []
    for step in range(2):
        mods["time"].update()
        if step == 1:  # one particle dies, is removed, and another is released: same count, every slot now holds another cell
            rng.next_step()
            st["alive"][0] = False
            st.compactify()
            st.append(X=3.2 if (xs[-1] > 4.5 or deep_first) else 6.2, Y=4.2, Z=(0.9 * h0 if (xs[-1] > 4.5 or deep_first) else 1.0 * h0))
        fo.update()
        zb, xb = st.Z.copy(), st.X.copy()
        try:
            tr.update()
        except util.HarnessError:
            raise
        except Exception as e:
            return util.result(viol=[util.viol("exception", f"{case}: {e!r}", case)], nontrivial=1)
        for k in range(len(st)):
            hc = h0 if xb[k] < 4.5 else 2 * h0
            z = reflect(zb[k] + float(dd[k]) + float(dw[k]), hc)
            got = float(st.Z[k])
            if (not (-1e-12 <= got <= hc * (1 + 1e-12)) or abs(got - z) > 1e-9 * hc) and not viols:
                viols.append(util.viol("reshuffle:reflection", f"{case} step {step} slot {k} (x={xb[k]}): Z={got} expected {z} with the bottom {hc} of the particle's own cell", case))
    return util.result(evals=2 * n, nontrivial=2 * n, viol=viols, outcomes=[["reshuffle", vmode]], states=2 * n, transitions=2 * n, sample=dict(case))


def run_roms(case):
    """Slice on the real ROMS Grid: the bottom depth is that of the nearest cell of the loaded (sub)grid."""
    from ladim.ROMS import Grid
    from ladim.state import State
    from ladim.timekeeper import TimeKeeper
    from ladim.tracker import Tracker

    IM, JM = (200, 220) if case.get("big") else (10, 8)  # big: more cells than fit in 15 bits
    jj, ii = np.meshgrid(np.arange(JM), np.arange(IM), indexing="ij")
    h = 20.0 + 13.0 * ((ii * 3 + jj * 5) % 4)
    # in half of the cases the critical depth hc exceeds the depth of the shallowest cells: the bottom is still the cell's own h
    w = world.World(imax=IM, jmax=JM, N=2, h=h, dx=100.0, hc=25.0 if case["subgrid"] in (None, [3, 9, 1, 7]) else 0.0)
    d = util.scratch("c15")
    f = w.write_file(d / "g.nc", [dict(t=S0, **w.zeros())])
    sg = case["subgrid"]
    lim = sg or [1, IM - 1, 1, JM - 1]
    mods = {}
    mods["time"] = TimeKeeper(start=world.iso(S0), stop=world.iso(S0 + 100 * DT), dt=DT)
    mods["state"] = st = State()
    mods["grid"] = Grid(f, subgrid=sg)
    P = [(x, y) for x in np.arange(lim[0] + 0.6, lim[1] - 1.5, 0.7) for y in np.arange(lim[2] + 0.6, lim[3] - 1.5, 0.7)]
    if case.get("big"):
        P = [(x, y) for x in (5.3, 23.8, 77.7, 150.2, 195.6) for y in (3.4, 33.3, 100.6, 163.3, 164.2, 165.1, 215.7) if lim[0] + 0.5 < x < lim[1] - 1.5 and lim[2] + 0.5 < y < lim[3] - 1.5]
    fd, fw = dict(diff=(1, 0), w=(0, 1), both=(0.75, 0.25))[case["vmode"]]
    ds = [0.0] + [sg_ * q for hv in sorted(set(h.ravel().tolist())) for q in (hv * 2.0 ** -10, hv / 2, 0.99 * hv) for sg_ in (1, -1)]
    viols, nt, ntot = [], 0, 0
    for dval in ds:  # one displacement per run, the same for every particle (independent of the tracker's draw structure)
        mods = {}
        mods["time"] = TimeKeeper(start=world.iso(S0), stop=world.iso(S0 + 100 * DT), dt=DT)
        mods["state"] = st = State()
        mods["grid"] = Grid(f, subgrid=sg)
        X, Y, Z0, HC = [], [], [], []
        for x, y in P:
            hc = float(h[int(round(y)), int(round(x))])
            if abs(dval) >= hc:
                continue  # outside the statement's condition
            for z0 in (0.0, hc / 4, hc / 2, hc * (1 - 2.0 ** -10), hc):
                X.append(x), Y.append(y), Z0.append(z0), HC.append(hc)
        n = len(X)
        if n == 0:
            continue
        ntot += n
        dd, dw = fd * dval, fw * dval
        mods["forcing"] = fo = plugin("aforce").Forcing(mods, field="still", w=[dw / DT] * n, record=False)
        kw = dict(advection="EF", modules=mods)
        if case["vmode"] in ("diff", "both"):
            kw["vertdiff"] = 1.0 / (2 * DT)
        if case["vmode"] in ("w", "both"):
            kw["vertical_advection"] = True
        tr = Tracker(**kw)
        mods["tracker"] = tr
        tr.rng = scriptrng.Constant([dd])
        st.append(X=np.array(X), Y=np.array(Y), Z=np.array(Z0))
        mods["time"].update()
        fo.update()
        try:
            tr.update()
        except util.HarnessError:
            raise
        except Exception as e:
            return util.result(viol=[util.viol("exception", f"{case}: {e!r}", case)], nontrivial=1)
        for k in range(n):
            hc = HC[k]
            z = Z0[k] + dd + dw
            if z < 0 or z > hc:
                nt += 1
            z = reflect(z, hc)
            got = float(st.Z[k])
            if not (-1e-12 <= got <= hc * (1 + 1e-12)) or abs(got - z) > 1e-9 * hc:
                if not viols:
                    viols.append(util.viol("roms:reflection", f"{case}: particle at ({X[k]:.2f},{Y[k]:.2f}) Z0={Z0[k]} displacement {dd + dw}: Z={got} expected {z} with bottom {hc}", case))
    return util.result(evals=ntot, nontrivial=nt, viol=viols, outcomes=[["roms", case["vmode"]]], states=ntot, transitions=ntot, sample=dict(case, particles=ntot))


def warmup():
    run_plug(dict(mode="plug", h=50.0, scheme="RK4", vmode="both", flow="east"))


def run_case(case):
    return dict(plug=run_plug, roms=run_roms, reshuffle=run_reshuffle)[case["mode"]](case)
