"""C08 - restart transparency: a warm start from any completed output file continues as if the run never stopped.

Scenario lattice x every file boundary: the uninterrupted split run is compared record by record (by decoded
absolute time) with every run warm-started from one of its completed files, configured as the docs prescribe.
"""

from __future__ import annotations

import itertools
import math

import numpy as np

from mc import drive, util, world

ID = "C08"
LEVEL = "model_checking"
RULE = (
    "scheme x direction (forward, time-reversed) x release mode (discrete at several times / continuous) x death kind (none, IBM age limit, leaving the grid, both) x scalar forcing x "
    "duration multiple or not of the period x numrec {1,2,3} x period, and for each scenario EVERY file boundary as restart point; non-trivial = a restart "
    "after which at least one particle is released AND at least one particle has died before the restart; lattice points distinct by construction"
)
RULE += " A third of the points run another experiment (and one restart of it) first, in the same directory under the same file names."
RULE += " Beyond the lattice (chosen scenarios, not enumerated): a cohort that dies out completely before a late release; the known finding is recognised only by the exact outcome it explains."
ASSUMPTIONS = [
    "diffusion off (the statement's condition); float64 output so that 'up to output precision' is 1e-9",
    "the restart is configured as documented: same numrec, file name continuing the numbering, all state variables listed",
    "a record at exactly `stop` (written by a warm run, not by a cold run) has no counterpart and is not compared",
]

S0 = world.tosec("2020-02-01T00:00:00")
DT = 600
VARS = ("pid", "X", "Y", "Z", "age", "temp", "tag", "dose", "active")


def bounds(tier, seed):
    return dict(schemes=["EF", "RK2", "RK4"], release=["discrete", "continuous", "late", "gap"], deaths=["none", "ibm", "leave", "both"], scalar=[True], numrec=[1, 2, 3], rev=[False, True],
                nsteps=[12, 13] if tier == "quick" else [8, 12, 13, 17], periods=[1, 2] if tier == "quick" else [1, 2, 3])


def cases(tier, seed):
    b = bounds(tier, seed)
    out = []
    k = seed
    for rel, death, numrec, n, P in itertools.product(b["release"], b["deaths"], b["numrec"], b["nsteps"], b["periods"]):
        k += 1
        schemes = b["schemes"] if tier == "thorough" else [b["schemes"][k % 3]]
        for sch in schemes:
            for rev in b["rev"]:
                out.append(dict(scheme=sch, release=rel, death=death, numrec=numrec, nsteps=n, period=P, pvars=bool((k // 2 + k // 7) % 2), packed=bool((k // 3) % 2), other_ref=bool((k // 5) % 2), rev=rev, decoy=bool((k + k // 4) % 3 == 0)))
    return out


def make_world():
    imax, jmax, N = 12, 9, 2
    jj, ii = np.meshgrid(np.arange(jmax), np.arange(imax), indexing="ij")
    w = world.World(imax=imax, jmax=jmax, N=N, h=40.0 + 5.0 * ((ii + jj) % 3), dx=800.0)
    k = np.arange(N)[:, None, None]
    ju, iu = np.meshgrid(np.arange(jmax), np.arange(imax - 1), indexing="ij")
    jv, iv = np.meshgrid(np.arange(jmax - 1), np.arange(imax), indexing="ij")
    base = dict(u=0.25 + 0.0625 * k + 0.03125 * ju[None] + 0 * iu[None], v=0.03125 * (k - 0.5) + 0.015625 * (iv[None] - 5) + 0 * jv[None],
                temp=4.0 + ((k * 7 + jj[None] * 3 + ii[None]) % 8) / 4.0)
    return w, base


W, BASE = make_world()


def frames(nsteps, sign=1):
    """Frames at simulation steps -1, 5, 9, nsteps+2 (time = S0 + sign * step * DT), returned in calendar order.
    In a time-reversed run ladim negates u and v, so the reversed world stores the negated field: the particles drift the same way."""
    out = []
    for s, c in ((-1, 1.0), (5, 1.5), (9, 0.75), (nsteps + 2, 1.25)):
        off = 200 if s == 5 else 0  # one frame is NOT on the step lattice (mid-interval time stamp)
        out.append(dict(t=S0 + sign * (s * DT + off), u=sign * BASE["u"] * c, v=sign * BASE["v"] * c, temp=BASE["temp"] + s))
    return out[::sign]


def setup(case, d):
    sign = -1 if case.get("rev") else 1
    fr = frames(case["nsteps"], sign)
    W.write_file(d / "f_a.nc", fr[:2])
    W.write_file(d / "f_b.nc", fr[2:])
    rows = []
    east = case["death"] in ("leave", "both")
    pos = [(3.3, 3.6, 5.0), (4.7, 2.4, 20.0), (9.2 if east else 5.2, 5.2, 10.0), (2.6, 4.1, 30.0)]
    if case["release"] == "discrete":
        sched = [(0, 0, 2), (0, 1, 1), (3, 2, 1), (4, 3, 1), (7, 0, 1), (10, 1, 2)]
    elif case["release"] == "late":  # nothing is released during the first three steps
        sched = [(3, 0, 2), (4, 1, 1), (7, 2, 1), (10, 3, 1)]
    elif case["release"] == "gap":  # an early cohort (which an age limit kills off completely), nothing for a long while, one late release
        sched = [(0, 0, 2), (1, 1, 1), (10, 3, 1)]
    else:
        sched = [(0, 0, 1), (0, 2, 1), (7, 1, 1)]  # the second file time is NOT on the 3-step tick grid
    for slot, pi, mult in sched:
        x, y, z = pos[pi]
        rows.append(dict(mult=mult, release_time=world.iso(S0 + sign * slot * DT), X=x, Y=y, Z=z, tag=100 + 10 * slot + pi, weight=1.5 + slot + pi / 8))
    rel_extra = dict(continuous=True, release_frequency=3 * DT) if case["release"] == "continuous" else {}
    ibm = dict(module=drive.plug("sibm.py"), age=True, dose=True, settle_age=4 * DT)
    if case["death"] in ("ibm", "both"):
        ibm["agelimit"] = 5 * DT
    state = dict(instance_variables=dict(age="float", temp="float", tag="int", dose="float"), default_values=dict(age=0.0, temp=0.0, dose=0.0))
    pout = None
    if case["pvars"]:
        state["particle_variables"] = dict(weight="float", release_time="time")
        pout = dict(weight=world.ovar("f8"), release_time=world.ovar("f8", units="seconds since reference_time"))
    else:
        for r in rows:
            r.pop("weight")
    return rows, rel_extra, ibm, state, pout


def released_upto(case, step):
    """Reference count of particles released at steps 0..step (from the release table of setup())."""
    if case["release"] == "discrete":
        return sum(m for slot, _, m in [(0, 0, 2), (0, 1, 1), (3, 2, 1), (4, 3, 1), (7, 0, 1), (10, 1, 2)] if slot <= step)
    if case["release"] == "late":
        return sum(m for slot, _, m in [(3, 0, 2), (4, 1, 1), (7, 2, 1), (10, 3, 1)] if slot <= step)
    if case["release"] == "gap":
        return sum(m for slot, _, m in [(0, 0, 2), (1, 1, 1), (10, 3, 1)] if slot <= step)
    total, t = 0, 0
    while t <= step:
        total += 2 if t < 7 else 1  # file times 0 (two rows) and 7 (one row), ticks every 3 steps
        t += 3
    return total


def run_full(case, d):
    rows, rel_extra, ibm, state, pout = setup(case, d)
    sign = -1 if case.get("rev") else 1
    conf = drive.roms_conf(d, d / "f_*.nc", S0, S0 + sign * case["nsteps"] * DT, DT, rows, reversed_=bool(case.get("rev")), outvars=VARS, period=case["period"] * DT, numrec=case["numrec"],
                           tracker=dict(advection=case["scheme"]), state=state, ibm=ibm, particle_out=pout, extra_forcing=["temp"],
                           release_extra=rel_extra, filename="run.nc", reference=S0 - 86400)
    conf["output"]["instance_variables"]["tag"] = world.ovar("i4")
    conf["output"]["instance_variables"]["active"] = world.ovar("i1")
    if case.get("packed"):  # a warm-started variable stored packed (integer + scale_factor/add_offset), exactly representable
        conf["output"]["instance_variables"]["age"] = world.ovar("i4", scale_factor=0.5, add_offset=100.0)
    npid_by_step = {}
    drive.run_model(conf, d, after_step=lambda m, k: npid_by_step.__setitem__(k, int(m.state.npid)))
    return conf, npid_by_step


def run_restart(case, d, conf0, k, files):
    conf = {sec: (dict(v) if isinstance(v, dict) else v) for sec, v in conf0.items()}
    conf["output"] = dict(conf0["output"], filename=str(d / f"re{k}_{k + 1:03d}.nc"))
    # alive/active are mandatory state variables and are always taken from the file; 'active' is listed explicitly in half of the cases only
    wv = ["age", "temp", "tag", "dose"] + (["active"] if case.get("packed") else [])
    conf["warm_start"] = dict(filename=str(d / files[k]), variables=wv + (["weight", "release_time"] if case["pvars"] else []))
    conf["time"] = dict(conf0["time"])
    if case.get("other_ref"):  # the restart configuration states another reference time than the original run
        conf["time"]["reference"] = world.iso(S0 - 5 * 86400 - 3600)
    drive.run_model(conf, d)


def same(a, b, tol=1e-9):
    a, b = np.asarray(a, float), np.asarray(b, float)
    return a.shape == b.shape and np.all(np.abs(a - b) <= tol * np.maximum(1.0, np.abs(b)))


def run_case(case):
    viols = []

    def bad(sig, msg, k=None):
        if not any(v["sig"] == sig for v in viols):
            viols.append(util.viol(sig, f"{case} restart after file {k}: {msg}", dict(case, only_boundary=k)))

    d = util.scratch("c08")
    n, P, r = case["nsteps"], case["period"], case["numrec"]
    sign = -1 if case.get("rev") else 1
    if case.get("decoy") and math.ceil(math.ceil(n / P) / r) > 1:
        # another experiment first, in the same directory under the same file names (other release table, other number of particles),
        # restarted once in this very process: nothing remembered from its files may leak into the experiment below
        dec = dict(case, release="discrete" if case["release"] != "discrete" else "continuous", death="none", decoy=False)
        try:
            dconf, _ = run_full(dec, d)
            run_restart(dec, d, dconf, 0, [f"run_{j:03d}.nc" for j in range(math.ceil(math.ceil(n / P) / r))])
        except drive.RunFailed:
            pass  # the decoy's own fate is the business of its own lattice point
        for f in list(d.glob("run_*.nc")) + list(d.glob("re*_*.nc")):
            f.unlink()
    try:
        conf0, npid_by_step = run_full(case, d)
    except drive.RunFailed as e:
        bad("crash:uninterrupted", str(e))
        return util.result(viol=viols, nontrivial=1, outcomes=["crash"])
    K = math.ceil(n / P)
    nfiles = math.ceil(K / r)
    files = [f"run_{j:03d}.nc" for j in range(nfiles)]
    full = world.read_output([d / f for f in files])
    by_time = {rec["time"]: rec for rec in full["records"]}
    nrestarts = nt = 0
    for k in range(nfiles - 1):  # every completed file that is followed by at least one more record
        if "only_boundary" in case and case["only_boundary"] not in (None, k):
            continue
        nrestarts += 1
        t_restart = S0 + sign * ((k + 1) * r - 1) * P * DT
        try:
            run_restart(case, d, conf0, k, files)
        except drive.RunFailed as e:
            empty = sum(rec["count"] for rec in full["records"][k * r : (k + 1) * r]) == 0
            bad("crash:restart" + (":restart-file-without-particles" if empty else ""), str(e), k)
            continue
        # expected files of the restarted run: the remaining records (k+1)*r .. K-1, numbering continued
        rest = K - (k + 1) * r
        names = [f"re{k}_{k + 1 + j:03d}.nc" for j in range(math.ceil(rest / r))]
        # a warm run may add a record at exactly `stop`; tolerate one more file for it
        present = sorted(p.name for p in d.glob(f"re{k}_*.nc"))
        if present[: len(names)] != names or len(present) > len(names) + 1:
            bad("file-names", f"restarted run wrote {present} expected {names} (numbering continued from the warm-start file)", k)
            continue
        try:
            rs = world.read_output([d / p for p in present])
        except Exception as e:
            bad("unreadable", repr(e), k)
            continue
        later = sorted((t for t in by_time if sign * (t - t_restart) > 0), key=lambda t: sign * t)
        got_times = [rec["time"] for rec in rs["records"]]
        missing = [t for t in later if t not in got_times]
        if missing:
            bad("records:missing", f"records at steps {[sign * (t - S0) / DT for t in missing]} exist in the uninterrupted run but not in the restarted one (has steps {[sign * (t - S0) / DT for t in got_times]})", k)
        # known-finding discriminator: the restart file no longer holds the highest pid released so far
        idx_last = (k + 1) * r - 1
        pid_true = npid_by_step[idx_last * P]  # particles released up to and including the restart step, counted in the uninterrupted run itself
        pid_file = max([-1] + [p for rec in full["records"][k * r : idx_last + 1] for p in rec["vars"]["pid"].tolist()]) + 1
        absent = ":highest-pid-absent-from-restart-file" if pid_file < pid_true else ""
        dead_before = max(full["records"][(k + 1) * r - 1]["vars"]["pid"].tolist() + [-1]) + 1 > full["records"][(k + 1) * r - 1]["count"]
        released_after = False
        for rec in rs["records"]:
            ref = by_time.get(rec["time"])
            if ref is None:
                if rec["time"] != float(S0 + sign * n * DT):
                    bad("records:extra", f"restarted run has a record at step {sign * (rec['time'] - S0) / DT} that the uninterrupted run lacks", k)
                continue
            step = sign * (rec["time"] - S0) / DT
            if rec["vars"]["pid"].tolist() != ref["vars"]["pid"].tolist():
                sig = "particles"
                if set(rec["vars"]["tag"].tolist()) == set(ref["vars"]["tag"].tolist()) and len(rec["vars"]["pid"]) == len(ref["vars"]["pid"]):
                    sig = "pids:renumbered"
                # the known defect explains exactly ONE renumbering: particles released after the restart are shifted down by the number of
                # identifiers the restart file does not show; anything else is a different violation and keeps its plain signature
                explained = absent and rec["vars"]["pid"].tolist() == [q if q < pid_file else q - (pid_true - pid_file) for q in ref["vars"]["pid"].tolist()]
                bad(sig + (absent if explained else ""), f"record at step {step}: pids {rec['vars']['pid'].tolist()} (tags {rec['vars']['tag'].tolist()}) expected {ref['vars']['pid'].tolist()} (tags {ref['vars']['tag'].tolist()})", k)
                if sig != "pids:renumbered":
                    continue
            if max(ref["vars"]["pid"].tolist() + [-1]) > max(full["records"][(k + 1) * r - 1]["vars"]["pid"].tolist() + [-1]):
                released_after = True
            for v in ("X", "Y", "Z", "age", "temp", "tag", "dose", "active"):
                if not same(rec["vars"][v], ref["vars"][v]):
                    bad(f"values:{v}", f"record at step {step}: {v}={np.asarray(rec['vars'][v]).tolist()} expected {np.asarray(ref['vars'][v]).tolist()}", k)
        if case["pvars"]:
            for j, name in enumerate(names):
                fa = next(f for f in rs["files"] if f["name"] == name)
                fb = full["files"][k + 1 + j]
                for v in ("weight", "release_time"):
                    a, b = np.asarray(fa["particle"][v], float), np.asarray(fb["particle"][v], float)
                    if v == "release_time":  # decode to absolute time with each file's own units (the reference times may differ)
                        ra = world.tosec(np.datetime64(fa["particle_units"][v].split("since")[1].strip().replace(" ", "T")))
                        rb = world.tosec(np.datetime64(fb["particle_units"][v].split("since")[1].strip().replace(" ", "T")))
                        a, b = a + ra, b + rb
                    if j == len(names) - 1 and len(a) > len(b) and rs["records"][-1]["time"] == float(S0 + sign * n * DT):
                        a = a[: len(b)]  # the warm run's extra record at `stop` finalises its last file later: more particles, same prefix
                    eq = lambda x, y: len(x) == len(y) and bool(np.all((np.abs(x - y) <= 1e-9 * np.maximum(1, np.abs(y))) | (np.isnan(x) & np.isnan(y))))  # noqa: E731
                    if not eq(a, b):
                        # what the known defect alone produces: the entries of the identifiers missing from the restart file are dropped, the rest follows in order
                        explained = absent and eq(a, np.concatenate([b[:pid_file], b[pid_true:]]))
                        bad(f"particle-variables:{v}" + (absent if explained else ""), f"{name}: {v}={a.tolist()} expected {b.tolist()} (file {fb['name']} of the uninterrupted run)", k)
        if dead_before and released_after:
            nt += 1
    return util.result(evals=1 + nrestarts, nontrivial=nt, viol=viols, outcomes=[[nfiles, nrestarts]], states=nrestarts, transitions=nrestarts * n,
                       sample=dict(case, files=nfiles, restart_points=nrestarts))


def warmup():
    d = util.scratch("c08w")
    run_full(dict(scheme="RK4", release="discrete", death="both", numrec=2, nsteps=8, period=2, pvars=True), d)
