"""C09 - particles stay in the water inside the domain; the dead stay dead.

Seam A (exact trichotomy): real ROMS Grid (masks, ingrid, atsea) + real Tracker/State with an analytic uniform
forcing, so the unconstrained target of every particle is known exactly; scripted diffusion (0, 1, 2 deviations).
Seam B (invariants): the assembled Model on full ROMS forcing, inspected after every update() and in the records.
"""

from __future__ import annotations

import importlib.util
import itertools
import math

import numpy as np

from mc import drive, scriptrng, util, world

ID = "C09"
LEVEL = "model_checking"
RULE = (
    "mask family x 8 flow directions x 3 speeds x 3 schemes, particles on every sea-cell centre and +-0.45 offsets of the valid region, one particle made "
    "inactive, 4 steps; diffusion scripts with 0, 1, 2 deviations from {+-0.7, +-3 cells} on a slice; Model runs on ROMS forcing for the invariants; "
    "non-trivial = run in which at least one particle left the grid or had a move onto land cancelled; lattice points distinct by construction"
)
RULE += " Beyond the lattice (chosen scenarios, not enumerated): a 260x300 grid with land and open boundary where flat cell numbers exceed 2**15 and 2**16; draw-structure-agnostic diffusion oracle (assignment search)."
ASSUMPTIONS = [
    "valid region = the grid's documented +-1/2 margin inside the loaded rectangle",
    "positions are chosen off the exact half-cell lines so that the particle's cell is unambiguous",
    "an inactive particle whose hypothetical move would leave the grid may be marked dead (the statement is silent); it must not move",
]

S0 = world.tosec("2020-01-01T00:00:00")
DT = 600
DX = 800.0
MASKS = dict(sea=[], island=[(3, 3)], channel=[(3, 2), (4, 2), (3, 4), (4, 4)], headland=[(4, 2), (4, 3)], diag=[(5, 3), (5, 4), (4, 4), (6, 2), (6, 3), (6, 4)])
DIRS = [(1, 0), (-1, 0), (0, 1), (0, -1), (1, 1), (-1, 1), (1, -1), (-1, -1)]
SPEEDS = [0.3, 0.9, 1.6]
DEV = [0.7, -0.7, 3.0, -3.0]

_mods = {}


def plugin(name):
    if name not in _mods:
        spec = importlib.util.spec_from_file_location("c09_" + name, drive.PLUG / (name + ".py"))
        m = importlib.util.module_from_spec(spec)
        spec.loader.exec_module(m)
        _mods[name] = m
    return _mods[name]


def bounds(tier, seed):
    return dict(masks=list(MASKS), dirs=8, speeds=SPEEDS, schemes=["EF", "RK2", "RK4"], steps=4, deviations=2 if tier == "thorough" else 1,
                subgrids=[None, [2, 7, 1, 6]])


def cases(tier, seed):
    out = []
    for m, di, sp, sch, sg in itertools.product(MASKS, range(8), SPEEDS, ["EF", "RK2", "RK4"], [None, [2, 7, 1, 6]]):
        if sg is not None and (tier == "quick" and (di + seed) % 2):
            continue
        out.append(dict(mode="exact", mask=m, dir=di, speed=sp, scheme=sch, subgrid=sg))
    for m, di in itertools.product(["island", "channel"], [0, 5]):
        out.append(dict(mode="diffusion", mask=m, dir=di, ndev=0))
        for slot in range(12):
            out.append(dict(mode="diffusion", mask=m, dir=di, ndev=1, slot=slot))
            if tier == "thorough":
                out.append(dict(mode="diffusion", mask=m, dir=di, ndev=2, slot=slot))
    for m, di, sch in itertools.product(MASKS, range(8), ["EF", "RK4"] if tier == "quick" else ["EF", "RK2", "RK4"]):
        out.append(dict(mode="model", mask=m, dir=di, scheme=sch, speed=0.9 if (di + seed) % 2 else 0.3))
    for m, di in itertools.product(["sea", "island"], [0, 3, 5] if tier == "quick" else range(8)):
        out.append(dict(mode="model", mask=m, dir=di, scheme="EF", speed=0.9, layout="dense"))
    # beyond the lattice: a grid with more cells than fit in 15 or 16 bits, land and open boundary far from the origin
    for di in (0, 2, 4, 6):
        out.append(dict(mode="biggrid", dir=di, scheme="EF" if di % 4 == 0 else "RK4"))
    return out


def make_world(mask):
    m = np.ones((7, 8))
    for i, j in MASKS[mask]:
        m[j, i] = 0
    # pm, pn are not defined in the land cells of the grid file (NaN, as masking tools write them): no particle is ever in a land cell
    return world.World(imax=8, jmax=7, N=2, h=30.0, mask=m, dx=np.where(m > 0, DX, np.nan))


def start_positions(w, lim):
    i0, i1, j0, j1 = lim
    P = []
    for i in range(i0 + 1, i1 - 1):
        for j in range(j0 + 1, j1 - 1):
            if w.mask[j, i] < 1:
                continue
            for ox, oy in [(0, 0), (0.45, 0.0), (-0.45, 0.3), (0.2, -0.45), (-0.3, 0.45)]:
                x, y = i + ox, j + oy
                if i0 + 0.5 < x < i1 - 1.5 and j0 + 0.5 < y < j1 - 1.5:
                    P.append((x, y))
    return P


def script_of(dev, n):
    """dev = {(2*step + component, particle): kick}. In the stream of scalars the tracker draws in a step, the kick sits where the
    plain structure (one normal(size=n) for U, then one for V) would use it: position component*n + particle. Where the tracker really
    uses it is inferred by the oracle (see run_exact)."""
    return scriptrng.Placed({(c // 2, (c % 2) * n + k): v for (c, k), v in (dev or {}).items()})


def run_exact(case, dev=None):
    """Component-level run; returns (viols list of (sig,msg), facts)."""
    from ladim.ROMS import Grid
    from ladim.state import State
    from ladim.timekeeper import TimeKeeper
    from ladim.tracker import Tracker

    w = make_world(case["mask"])
    d = util.scratch("c09")
    f = w.write_file(d / "g.nc", [dict(t=S0, **w.zeros())])
    sg = case.get("subgrid")
    lim = sg or [1, 7, 1, 6]
    ux, uy = DIRS[case["dir"]]
    sp = case.get("speed", 0.3)
    # irrational-ish factor keeps targets off the half-cell lines
    vx, vy = ux * sp * 1.0123, uy * sp * 0.9871
    mods = {}
    mods["time"] = TimeKeeper(start=world.iso(S0), stop=world.iso(S0 + 100 * DT), dt=DT)
    mods["state"] = st = State()
    mods["grid"] = g = Grid(f, subgrid=sg)
    mods["forcing"] = fo = plugin("aforce").Forcing(mods, field="const", params=dict(a=vx / DT, b=vy / DT, L=DX), record=False)
    D = DX * DX / (2 * DT)  # sqrt(2 D dt)/dx = 1 cell per unit normal deviate
    tr = Tracker(advection=case.get("scheme", "EF"), diffusion=D if dev is not None else 0.0, modules=mods)
    mods["tracker"] = tr
    P = start_positions(w, lim)
    st.append(X=np.array([p[0] for p in P]), Y=np.array([p[1] for p in P]), Z=5.0)
    n = len(P)
    rng = None
    if dev is not None:
        tr.rng = rng = script_of(dev, n)
    # the grid's own notions of "at sea" and "on land" must be complementary everywhere, also exactly on the cell edges
    hx = np.arange(lim[0] + 0.5, lim[1] - 1.0, 0.25)
    hy = np.arange(lim[2] + 0.5, lim[3] - 1.0, 0.25)
    HX, HY = (a.ravel() for a in np.meshgrid(hx, hy))
    try:
        sea, land = np.asarray(g.atsea(HX, HY)), np.asarray(g.onland(HX, HY))
        if (sea == land).any():
            k = int(np.argmax(sea == land))
            return [("grid:atsea-vs-onland", f"at ({HX[k]},{HY[k]}) the grid says atsea={bool(sea[k])} and onland={bool(land[k])}")], dict(left=0, land=0, n=n)
    except Exception as e:
        return [("exception", f"grid.atsea/onland raised {e!r}")], dict(left=0, land=0, n=n)
    pos = [list(p) for p in P]
    alive, active = [True] * n, [True] * n
    bad, facts = [], dict(left=0, land=0, n=n)
    inactive_idx = n // 3

    def ref_step(step, kicks):
        """Reference semantics of one step for a given assignment {(particle, component): kick}; compares with the real state.
        Returns (mismatches, new pos, new alive, new active, facts increment)."""
        npos, nalive, nactive = [list(p) for p in pos], list(alive), list(active)
        out, inc = [], dict(left=0, land=0)
        for k in range(n):
            dx_ = vx + kicks.get((k, 0), 0.0)
            dy_ = vy + kicks.get((k, 1), 0.0)
            tx, ty = pos[k][0] + dx_, pos[k][1] + dy_
            inside = lim[0] + 0.5 < tx < lim[1] - 1.5 and lim[2] + 0.5 < ty < lim[3] - 1.5
            lenient_dead = False
            if alive[k] and active[k]:
                if not inside:
                    nalive[k] = nactive[k] = False
                    inc["left"] += 1
                elif w.mask[int(round(ty)), int(round(tx))] < 1:
                    inc["land"] += 1
                else:
                    npos[k] = [tx, ty]
            elif alive[k] and not active[k] and not inside:
                lenient_dead = True
            gx, gy, ga = float(st.X[k]), float(st.Y[k]), bool(st.alive[k])
            if abs(gx - npos[k][0]) > 1e-9 or abs(gy - npos[k][1]) > 1e-9:
                why = "inactive particle moved" if not active[k] and alive[k] else "dead particle moved" if not alive[k] else \
                      "moved onto land / move not cancelled" if w.mask[int(round(gy)) if 0 <= round(gy) < 7 else 0, int(round(gx)) if 0 <= round(gx) < 8 else 0] < 1 else "wrong position"
                sig = "position:" + why.split(" /")[0].replace(" ", "-")
                out.append((sig, f"step {step} particle {k} start {P[k]}: at ({gx},{gy}) expected ({npos[k][0]},{npos[k][1]}) [{why}]"))
            if ga != nalive[k] and not (lenient_dead and not ga):
                sig = "alive:resurrected-or-not-killed" if ga else "alive:killed-wrongly"
                out.append((sig, f"step {step} particle {k} start {P[k]}: alive={ga} expected {nalive[k]} (target ({tx:.3f},{ty:.3f}) inside={inside})"))
            if lenient_dead and not ga:
                nalive[k] = False
        return out, npos, nalive, nactive, inc

    for step in range(4):
        mods["time"].update()
        fo.update()
        if step == 1:  # an IBM makes one particle inactive (settled)
            st["active"][inactive_idx] = False
            active[inactive_idx] = False
        if rng is not None and step:
            rng.next_step()
        try:
            tr.update()
        except util.HarnessError:
            raise
        except Exception as e:
            return [("exception", f"step {step}: tracker.update raised {e!r}")], facts
        default = {(k, c % 2): v for (c, k), v in (dev or {}).items() if c // 2 == step}
        res = ref_step(step, default)
        if res[0] and default:
            # The statement does not fix which drawn number drives which particle and direction. Before reporting, every assignment of
            # this step's non-zero draws to (particle, direction) slots - each draw used at most once, or not at all - is tried.
            vals = [float(v) for v in rng.drawn_this_step() if v != 0.0]
            slots = [None] + [(k, c) for k in range(n) for c in (0, 1)]
            for assign in itertools.product(slots, repeat=len(vals)):
                used = [a for a in assign if a is not None]
                if len(set(used)) != len(used):
                    continue
                alt = ref_step(step, {a: v for a, v in zip(assign, vals) if a is not None})
                if not alt[0]:
                    res = alt
                    break
        mism, pos, alive, active, inc = res
        bad += mism
        facts["left"] += inc["left"]
        facts["land"] += inc["land"]
        # statement-level invariants on the real state
        for k in range(n):
            gx, gy, ga = float(st.X[k]), float(st.Y[k]), bool(st.alive[k])
            if ga:
                if not (math.isfinite(gx) and math.isfinite(gy)):
                    bad.append(("invariant:not-finite", f"step {step} particle {k}: ({gx},{gy})"))
                elif not (lim[0] + 0.5 < gx < lim[1] - 1.5 and lim[2] + 0.5 < gy < lim[3] - 1.5):
                    bad.append(("invariant:outside-valid-region", f"step {step} particle {k}: living particle at ({gx},{gy}) outside the valid region of {lim}"))
                elif w.mask[int(round(gy)), int(round(gx))] < 1:
                    bad.append(("invariant:on-land", f"step {step} particle {k}: living particle at ({gx},{gy}) in a land cell"))
        if len(bad) >= 3:
            return bad[:3], facts
    return bad, facts


def run_biggrid(case):
    """260 x 300 cells; islands and the far corner lie where a flat cell number exceeds 2**15 and 2**16."""
    from ladim.ROMS import Grid
    from ladim.state import State
    from ladim.timekeeper import TimeKeeper
    from ladim.tracker import Tracker

    imax, jmax = 260, 300
    m = np.ones((jmax, imax))
    islands = [(40, 30), (200, 120), (100, 130), (230, 252), (20, 280), (250, 290)]  # (i, j): flat numbers 7840 ... 75650
    for i, j in islands:
        m[j - 1 : j + 2, i - 1 : i + 2] = 0
    w = world.World(imax=imax, jmax=jmax, N=2, h=30.0, mask=m, dx=DX)
    d = util.scratch("c09b")
    f = w.write_file(d / "g.nc", [dict(t=S0, **w.zeros())])
    ux, uy = DIRS[case["dir"]]
    vx, vy = ux * 0.6 * 1.0123, uy * 0.6 * 0.9871
    mods = {}
    mods["time"] = TimeKeeper(start=world.iso(S0), stop=world.iso(S0 + 100 * DT), dt=DT)
    mods["state"] = st = State()
    mods["grid"] = Grid(f)
    mods["forcing"] = fo = plugin("aforce").Forcing(mods, field="const", params=dict(a=vx / DT, b=vy / DT, L=DX), record=False)
    mods["tracker"] = tr = Tracker(advection=case["scheme"], modules=mods)
    P = []
    for i, j in islands:  # a ring of sea positions around each island, two cells out
        for ox, oy in itertools.product((-2.3, -1.6, 0.0, 1.6, 2.3), repeat=2):
            if max(abs(ox), abs(oy)) > 1.5 and 1.5 < i + ox < imax - 2.5 and 1.5 < j + oy < jmax - 2.5:
                P.append((i + ox, j + oy))
    P += [(imax - 2.9, jmax - 2.8), (imax - 3.4, 5.2), (4.6, jmax - 3.3)]  # near the far corners of the open boundary
    st.append(X=np.array([p[0] for p in P]), Y=np.array([p[1] for p in P]), Z=5.0)
    n = len(P)
    pos, alive = [list(p) for p in P], [True] * n
    viols, facts = [], dict(left=0, land=0)
    for step in range(4):
        mods["time"].update()
        fo.update()
        try:
            tr.update()
        except Exception as e:
            return util.result(viol=[util.viol("biggrid:exception", f"{case}: step {step}: {e!r}", case)], nontrivial=1)
        for k in range(n):
            if alive[k]:
                tx, ty = pos[k][0] + vx, pos[k][1] + vy
                if not (1.5 < tx < imax - 2.5 and 1.5 < ty < jmax - 2.5):
                    alive[k] = False
                    facts["left"] += 1
                elif m[int(round(ty)), int(round(tx))] < 1:
                    facts["land"] += 1
                else:
                    pos[k] = [tx, ty]
            gx, gy, ga = float(st.X[k]), float(st.Y[k]), bool(st.alive[k])
            if ga != alive[k] and not viols:
                viols.append(util.viol("biggrid:alive", f"{case} step {step} particle at {P[k]}: alive={ga} expected {alive[k]}", case))
            if ga and (abs(gx - pos[k][0]) > 1e-9 or abs(gy - pos[k][1]) > 1e-9) and not viols:
                on = m[int(round(gy)), int(round(gx))] < 1
                viols.append(util.viol("biggrid:on-land" if on else "biggrid:position", f"{case} step {step} particle started at {P[k]}: at ({gx},{gy}){' IN A LAND CELL' if on else ''} expected ({pos[k][0]},{pos[k][1]})", case))
    return util.result(evals=4 * n, nontrivial=int(facts["land"] > 0 and facts["left"] > 0) * 4 * n, viol=viols, outcomes=[["biggrid", facts["land"] > 0, facts["left"] > 0]], states=4 * n, transitions=4 * n, sample=dict(case, particles=n))


def dev_scripts(case):
    """Deviation scripts: slots = (step 0..2) x (u,v) x (particle 0, particle n//2)."""
    slots = [(2 * s + c, which) for s in range(3) for c in range(2) for which in (0, 1)]
    if case["ndev"] == 0:
        yield {}
        return
    a = slots[case["slot"]]
    if case["ndev"] == 1:
        for v in DEV:
            yield {a: v}
    else:
        for b in slots[case["slot"] + 1 :]:
            for v1, v2 in itertools.product(DEV, DEV):
                yield {a: v1, b: v2}


def run_model(case):
    """Seam B: full ROMS forcing end to end; invariants after every step and in the records."""
    w = make_world(case["mask"])
    d = util.scratch("c09")
    ux, uy = DIRS[case["dir"]]
    u, v = ux * case["speed"] * DX / DT, uy * case["speed"] * DX / DT
    w.write_file(d / "f.nc", [dict(t=S0, **w.uniform(u, v)), dict(t=S0 + 6 * DT, **w.uniform(u, v))])
    lim = [1, 7, 1, 6]
    P = start_positions(w, lim)
    # releases at steps 0, 1 and 3: particles released last (highest pids) near the outflow edge die first, later releases follow
    rows = [dict(release_time=world.iso(S0 + (0, 1, 3)[k % 3] * DT), X=x, Y=y, Z=3.0) for k, (x, y) in enumerate(P)]
    rows.sort(key=lambda r: r["release_time"])
    # every fourth particle is released settled: the release file carries the flag as a 0/1 column; it is alive, it must never move
    settled = {}
    for k, r in enumerate(rows):
        r["active"] = 0 if k % 4 == 2 else 1
        if not r["active"]:
            settled[k] = (r["X"], r["Y"])  # rows are released in file order: row k gets pid k
    layout = case.get("layout", "sparse")
    # in half of the cases the configuration spells the flag's type out (`state: instance_variables: {active: bool}`), which changes nothing
    state = dict(instance_variables=dict(active="bool")) if case["dir"] % 2 == 0 else None
    conf = drive.roms_conf(d, d / "f.nc", S0, S0 + 5 * DT, DT, rows, tracker=dict(advection=case["scheme"]), layout=layout, state=state)
    bad, facts = [], dict(left=0, n=len(P))
    seen_alive = {}
    dead_after = {}  # step -> pids known to be dead once that step is complete

    def after(model, k):
        st = model.state
        now_alive = {p for p, a in zip(st.pid.tolist(), st.alive.tolist()) if a}
        dead_after[k] = (set(seen_alive) | set(st.pid.tolist())) - now_alive
        for pid, x, y, a in zip(st.pid.tolist(), st.X.tolist(), st.Y.tolist(), st.alive.tolist()):
            if seen_alive.get(pid) is False and a:
                bad.append(("alive:resurrected-or-not-killed", f"step {k}: pid {pid} alive again"))
            seen_alive[pid] = a
            if pid in settled and (x, y) != settled[pid]:
                bad.append(("inactive:moved", f"step {k}: pid {pid}, released inactive at {settled[pid]}, is at ({x},{y})"))
            if a:
                if not (math.isfinite(x) and math.isfinite(y)) or not (1.5 < x < 5.5 and 1.5 < y < 4.5):
                    bad.append(("invariant:outside-valid-region", f"step {k}: living pid {pid} at ({x},{y})"))
                elif w.mask[int(round(y)), int(round(x))] < 1:
                    bad.append(("invariant:on-land", f"step {k}: living pid {pid} at ({x},{y}) in a land cell"))

    try:
        drive.run_model(conf, d, after_step=after)
        out = world.read_output([d / "out.nc"], layout)
    except drive.RunFailed as e:
        return [("model:crash", str(e))], facts
    if layout == "dense":  # columns = pids; a value that is not fill means the particle is in the record
        recs = []
        for rec in out["records"]:
            X, Y = np.asarray(rec["vars"]["X"], float), np.asarray(rec["vars"]["Y"], float)
            ok = ~(np.isnan(X) | (np.abs(X) > 9e36))
            recs.append(dict(vars=dict(pid=np.nonzero(ok)[0], X=X[ok], Y=Y[ok])))
        out = dict(records=recs)
    gone = set()
    prev = None
    for ri, rec in enumerate(out["records"]):
        pids = set(rec["vars"]["pid"].tolist())
        ghosts = pids & dead_after.get(ri - 1, set())
        if ghosts:
            bad.append(("records:dead-particle-present", f"record {ri}: pids {sorted(ghosts)} were dead after step {ri - 1} but are in the record"))
        back = gone & pids
        if back:
            bad.append(("records:reappeared", f"record {ri}: pids {sorted(back)} reappear after having left the output"))
        if prev is not None:
            gone |= prev - pids
        prev = pids
        for x, y in zip(rec["vars"]["X"].tolist(), rec["vars"]["Y"].tolist()):
            if not (1.5 < x < 5.5 and 1.5 < y < 4.5) or w.mask[int(round(y)), int(round(x))] < 1:
                bad.append(("records:bad-position", f"record {ri}: particle at ({x},{y})"))
    facts["left"] = len(gone)
    return bad[:3], facts


def run_case(case):
    viols, n, nt = [], 0, 0
    outcomes = set()
    if case["mode"] == "biggrid":
        return run_biggrid(case)
    if case["mode"] == "exact":
        bad, facts = run_exact(case)
        runs = [(bad, facts, case)]
    elif case["mode"] == "diffusion":
        runs = []
        for dev in dev_scripts(case):
            if "only_dev" in case and {f"{k[0]},{k[1]}": v for k, v in dev.items()} != case["only_dev"]:
                continue
            bad, facts = run_exact(dict(case, scheme="EF", speed=0.3), dev=dev)
            runs.append((bad, facts, dict(case, only_dev={f"{k[0]},{k[1]}": v for k, v in dev.items()})))
    else:
        bad, facts = run_model(case)
        runs = [(bad, facts, case)]
    for bad, facts, c in runs:
        n += 1
        if facts.get("left", 0) or facts.get("land", 0):
            nt += 1
        outcomes.add((facts.get("left", 0) > 0, facts.get("land", 0) > 0))
        for sig, msg in bad:
            if not any(v["sig"] == sig for v in viols):
                viols.append(util.viol(sig, f"{ {k: v for k, v in c.items()} }: {msg}", c))
    return util.result(evals=n, nontrivial=nt, viol=viols, outcomes=[list(o) for o in outcomes], states=n * 4, transitions=n * 4 * 20, sample=dict(case))


def warmup():
    run_exact(dict(mask="island", dir=0, speed=0.9, scheme="RK4", subgrid=None))
    run_model(dict(mask="island", dir=0, speed=0.9, scheme="RK4"))
