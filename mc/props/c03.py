"""C03 - forcing in time: linear between bracketing frames for any frame/file layout.

Every frame subset of the step slots covering the window x every composition of the frames into
files x direction x scalar on/off; the real TimeKeeper/Grid/State/Forcing are stepped exactly as
Model.update does and compared with the reference time interpolation of tagged frames.
"""

from __future__ import annotations

import itertools

import numpy as np

from mc import util, world

ID = "C03"
LEVEL = "model_checking"
RULE = (
    "every subset of the step slots {-3..Nsteps+3} with 2..F frames that covers the window, every composition of the frame sequence into files, "
    "forward and reversed, with/without a scalar field, fractional steps {0, 1/2, 1}; non-trivial = at least one hand-over (a frame strictly inside "
    "the run) AND at least one interpolated step; lattice points distinct by construction"
)
RULE += " Beyond the lattice (chosen scenarios, not enumerated): intervals of 75-150 steps between frames, also with single-precision files."
ASSUMPTIONS = ["frames on the model time grid", "time units 'seconds since 1970-01-01' (one slice uses hours/days)", "a global sign of the reversed velocity is factored out (C10 decides it)"]

S0 = world.tosec("2021-06-01T00:00:00")
DT = 600
TAGS = [0.5, -0.25, 1.0, 0.125, -0.75, 0.375, 0.875, -0.5, 0.25, -1.0, 0.625, -0.125, 0.75, -0.375]  # by slot+3
FRACS = [0.0, 0.5, 1.0]


def bounds(tier, seed):
    if tier == "quick":
        return dict(nsteps=[1, 2, 3], max_frames=4, pre=2, post=2)
    return dict(nsteps=[1, 2, 3, 4, 5], max_frames=6, pre=3, post=3)


def layouts(nsteps, max_frames, pre, post):
    slots = list(range(-pre, nsteps + post + 1))
    for k in range(2, max_frames + 1):
        for fr in itertools.combinations(slots, k):
            if fr[0] <= 0 and fr[-1] >= nsteps:
                yield fr


def compositions(n):
    """All ways to cut a sequence of n frames into consecutive files: tuples of file sizes."""
    for cuts in itertools.product([0, 1], repeat=n - 1):
        sizes, cur = [], 1
        for c in cuts:
            if c:
                sizes.append(cur)
                cur = 1
            else:
                cur += 1
        sizes.append(cur)
        yield tuple(sizes)


def cases(tier, seed):
    b = bounds(tier, seed)
    out = []
    for n in b["nsteps"]:
        for fr in layouts(n, b["max_frames"], b["pre"], b["post"]):
            if tier == "quick" and len(fr) == 4 and (hash(fr) + seed) % 2:
                continue  # quick: a seed-chosen half of the 4-frame layouts
            out.append(dict(nsteps=n, frames=list(fr)))
    # beyond the lattice: long intervals between frames (dozens of steps of accumulated increments), also with single-precision files
    out.append(dict(nsteps=160, frames=[-5, 70, 151, 170], long=True))
    out.append(dict(nsteps=150, frames=[0, 149, 150], long=True))
    return out


def tag(slot):
    return TAGS[(slot + 3) % len(TAGS)]


def ref_velocity(frames, nu, tg=None):
    """Reference: linear interpolation of the frame tags at real step nu."""
    tg = tg or {s: tag(s) for s in frames}
    for a, b in zip(frames, frames[1:]):
        if a <= nu <= b:
            return tg[a] + (nu - a) / (b - a) * (tg[b] - tg[a])
    raise util.HarnessError((frames, nu))


def ref_scalar(frames, n):
    return 100.0 + max(s for s in frames if s <= n)


W = world.World(imax=6, jmax=5, N=2, h=20.0, dx=1000.0)
PX, PY, PZ = 2.5, 2.0, 5.0  # on a u-node; v-node not needed (v = -2*tag uniform)


def run_layout(nsteps, frames, sizes, rev, scalar, units="seconds", late=0, flat=False, d=None, storage="f8"):
    """Returns (sig, msg) or None."""
    from ladim.ROMS import Forcing, Grid
    from ladim.state import State
    from ladim.timekeeper import TimeKeeper

    if d is None:
        d = util.scratch("c03")
    else:  # the same file names are re-used for the next layout: nothing may be remembered about the old files
        for f_ in d.iterdir():
            f_.unlink()
    sgn = -1 if rev else 1
    tg = {s: tag(s) for s in frames}
    if flat:  # the first two frames (in simulation order) carry the same field, the later ones differ
        tg[frames[1]] = tg[frames[0]]
    cal = sorted(frames, key=lambda s: sgn * s)  # calendar order
    files, k = [], 0
    order = cal if not rev else cal  # files hold consecutive calendar frames
    sz = sizes if not rev else sizes
    for fi, size in enumerate(sz):
        chunk = order[k : k + size]
        k += size
        fl = []
        for s in chunk:
            f = W.uniform(tg[s], -2 * tg[s])
            if scalar:
                f["temp"] = np.full((W.N, W.jmax, W.imax), 100.0 + s)
            fl.append(dict(t=S0 + sgn * s * DT, **f))
        tu = f"{units} since 1970-01-01 00:00:00"
        files.append(W.write_file(d / f"f_{fi:03d}.nc", fl, time_units=tu, storage=storage))
    try:
        grid = Grid(files[0])
        st = State(instance_variables=dict(temp=float) if scalar else None)
        if late == 0:
            st.append(X=PX, Y=PY, Z=PZ, **(dict(temp=0.0) if scalar else {}))
        tk = TimeKeeper(start=world.iso(S0), stop=world.iso(S0 + sgn * nsteps * DT), dt=DT, time_reversal=rev)
        force = Forcing(dict(time=tk, grid=grid, state=st), str(d / "f_*.nc"), extra_forcing=["temp"] if scalar else None)
    except BaseException as e:
        return ("init:" + type(e).__name__, f"start-up failed on a valid layout: {e!r}")
    # a second Forcing object on another data set (the same frames, stored packed) is set up after the first and before it is stepped
    # (two nested or alternative forcings prepared in one script): what it learns about ITS files must not reach the first one
    try:
        dd = d.parent / (d.name + "_other")
        dd.mkdir(exist_ok=True)
        for f_ in dd.iterdir():
            f_.unlink()
        W.write_file(dd / "g_000.nc", [dict(t=S0 + sgn * s * DT, **W.uniform(0.25, -0.125)) for s in cal], storage="i2", scale=dict(u=(2.0 ** -6, 0.0), v=(2.0 ** -7, 0.0)))
        tk2 = TimeKeeper(start=world.iso(S0), stop=world.iso(S0 + sgn * nsteps * DT), dt=DT, time_reversal=rev)
        Forcing(dict(time=tk2, grid=grid, state=State()), str(dd / "g_*.nc"))
    except BaseException:
        pass
    sign = None
    # single-precision files: the difference of two frames carries a relative error of 2**-24; it must not grow with the number of steps
    tol = 1e-9 if storage == "f8" else 2.0 ** -23
    try:
        # a warm-started run (and any driver that steps up to the stop time) also executes the step AT the stop time: it is
        # checked whenever the frames reach it, with the fractional requests the frames still cover
        for n in range(nsteps + (1 if frames[-1] >= nsteps else 0)):
            tk.update()
            if late and n == late:  # the state was empty so far: the first particle is released only now
                st.append(X=PX, Y=PY, Z=PZ, **(dict(temp=0.0) if scalar else {}))
            force.update()
            if n < late:
                continue
            # the order of the requests matters to anything cached between them: the first non-zero fraction of a step
            # repeats the last one of the previous step (the access pattern of RK2 / of a probe)
            for frac in ([0.5, 0.0, 1.0, 0.5] if not scalar else [1.0, 0.0, 0.5, 1.0]):
                if n + frac > frames[-1]:
                    continue
                u, v = force.velocity(st.X, st.Y, st.Z, fractional_step=frac)
                got_u, got_v = float(u[0]), float(v[0])
                exp = ref_velocity(frames, n + frac, tg)
                if frac == 0.0:
                    vu = float(force.variables["u"][0])
                    if abs(vu - got_u) > 1e-12:
                        return ("variables-vs-velocity", f"step {n}: variables['u']={vu} but velocity()={got_u}")
                if abs(exp) > 1e-9 and sign is None and abs(abs(got_u) - abs(exp)) < tol:
                    sign = 1.0 if got_u * exp > 0 else -1.0
                s = sign if sign is not None else 1.0
                if abs(got_u - s * exp) > tol or abs(got_v - s * (-2 * exp)) > 2 * tol:
                    what = "frame-step" if n in frames else "between-frames"
                    return (f"velocity:{what}:frac={frac}", f"step {n} frac {frac}: u={got_u} v={got_v} expected u={s * exp} (frames {frames}, tags {[tg[x] for x in frames]})")
            if scalar:
                t = float(force.variables["temp"][0])
                e = ref_scalar(frames, n)
                if t != e or float(st["temp"][0]) != e:
                    return ("scalar", f"step {n}: temp={t} (state {float(st['temp'][0])}) expected {e} = frame at slot {e - 100:.0f}")
        force.close()
    except BaseException as e:
        return ("run:" + type(e).__name__, f"crashed at step {tk.step}: {e!r}")
    if rev and sign == 1.0 and False:
        return None
    return None


def classify(frames, sizes, rev, nsteps):
    feats = []
    if any(b - a == 1 for a, b in zip(frames, frames[1:])):
        feats.append("spacing=dt")
    if len(sizes) > 1:
        feats.append("multifile")
    if rev:
        feats.append("reversed")
    return "+".join(feats) or "plain"


def run_case(case):
    nsteps, frames = case["nsteps"], case["frames"]
    viols, n, nt = [], 0, 0
    outcomes = set()
    comps = list(compositions(len(frames)))
    combos = [(list(sz), rev, sc) for sz in comps for rev in (False, True) for sc in (False, True)]
    if case.get("long"):
        combos = [(list(sz), rev, sc) for sz in (comps[0], comps[-1]) for rev in (False, True) for sc in (False, True)]
    if nsteps >= 2:  # the same layouts with an empty state during the first steps (first release at step 1 or 2)
        combos += [(list(comps[0]), rev, True, late) for rev in (False, True) for late in range(1, min(nsteps, 3))]
        combos += [(list(comps[-1]), False, False, nsteps - 1)]
    if len(frames) >= 3:  # the first two frames identical, the field changes only later
        combos += [(list(comps[0]), rev, False, 0, True) for rev in (False, True)]
    warm = 0
    if "only" in case:
        # replay of one layout: the layouts executed before it in the same directory are executed first (unchecked), because
        # the files of the checked layout REPLACE those of its predecessors under the same names
        norm = lambda c: [list(c[0]), c[1], c[2], c[3] if len(c) > 3 else 0, c[4] if len(c) > 4 else False]  # noqa: E731
        want = (list(case["only"]) + [0, False])[:5]
        idx = next((i for i, c in enumerate(combos) if norm(c) == [list(want[0])] + want[1:]), None)
        if idx is None:
            combos = [tuple(case["only"])]
        else:
            combos = combos[: idx + 1]  # the whole history of this directory up to the checked layout
            warm = len(combos) - 1
    dshared = util.scratch("c03")
    for ci, combo in enumerate(combos):
        sz, rev, sc = combo[:3]
        late = combo[3] if len(combo) > 3 else 0
        flat = combo[4] if len(combo) > 4 else False
        sz = tuple(sz)
        units = "seconds"
        if (len(frames) + nsteps) % 5 == 0 and sc:
            units = "hours" if rev else "days"  # a slice with other CF time units
        res = run_layout(nsteps, frames, sz, rev, sc, units, late, flat, dshared, storage="f4" if case.get("long") and ci % 2 else "f8")
        if ci < warm:
            continue
        n += 1
        handover = any(0 < s < nsteps for s in frames)
        interp = any(s not in frames for s in range(nsteps))
        if handover and interp:
            nt += 1
        outcomes.add((len(frames), len(sz), rev))
        if res is not None:
            sig = res[0]
            if sum(1 for v in viols if v["sig"] == sig) < 1:
                viols.append(util.viol(sig, f"Nsteps={nsteps} frames@steps={frames} files={sz} rev={rev} scalar={sc} first-release-at-step={late} [{classify(frames, sz, rev, nsteps)}]: {res[1]}",
                                       dict(nsteps=nsteps, frames=frames, only=[list(sz), rev, sc, late, flat], **({"long": True} if case.get("long") else {}))))
    util.cleanup_scratch(keep_root=True)
    return util.result(evals=n, nontrivial=nt, viol=viols, outcomes=[list(o) for o in outcomes], states=n * nsteps, transitions=n * nsteps * 3,
                       sample=dict(nsteps=nsteps, frame_steps=frames, file_compositions=len(comps), example_files=list(comps[len(comps) // 2])))


def warmup():
    run_case(dict(nsteps=2, frames=[0, 2], only=[[2], False, True]))
