"""C11 - random-walk diffusion has the configured variance and no bias.

The distributional claim is reduced to an exact algebraic one by owning the randomness: the tracker's
generator is replaced by a scripted source returning distinct provenance-tagged values. The property holds iff
(a) displacement(i, direction, step) = sqrt(2 D dt) * xi / dx_direction (sqrt(2 Dz dt) * zeta in depth),
(b) every step draws one fresh value per particle and direction and uses each exactly once for its own particle,
(c) nothing else is added, (d) with D = Dz = 0 nothing is drawn and the result is bit-identical.
Mean 0 / variance 2 D t / independence then follow from numpy's Generator.normal being i.i.d. N(0,1)
(trusted base; the unmodified tracker's generator type is asserted).
"""

from __future__ import annotations

import importlib.util
import itertools

import numpy as np

from mc import drive, scriptrng, util, world

ID = "C11"
LEVEL = "model_checking"
RULE = (
    "D, Dz in {0,1e-4,1e-2,1,100} x dt in {1,60,600,3600} x (dx,dy) in {1,100,800,20000 and dx!=dy} x particles {1,3} x steps {1,2,3,50} x advection {none, EF in "
    "still water}; every step's displacement of every particle in every direction matched against the tagged draws; non-trivial = D>0 or Dz>0 "
    "(a draw must happen); lattice points distinct by construction"
)
ASSUMPTIONS = [
    "numpy.random.Generator.normal(size=n) returns i.i.d. standard normal values (trusted base); sample statistics are NOT computed",
    "the scripted source answers only normal(size=n): any other call (other distribution, loc/scale) is reported",
]

S0 = world.tosec("2020-01-01T00:00:00")
DS = [0.0, 1e-4, 1e-2, 1.0, 100.0]
DTS = [1, 60, 600, 3600]
DXS = [(1.0, 1.0), (100.0, 100.0), (800.0, 500.0), (20000.0, 20000.0), (400.0, "cellwise"), (100, "int")]  # "int": the grid reports its spacing as integers

_mods = {}


def plugin(name):
    if name not in _mods:
        spec = importlib.util.spec_from_file_location("c11_" + name, drive.PLUG / (name + ".py"))
        m = importlib.util.module_from_spec(spec)
        spec.loader.exec_module(m)
        _mods[name] = m
    return _mods[name]


def bounds(tier, seed):
    if tier == "thorough":
        return dict(D=DS + [1e-6, 10.0, 1e4], Dz=DS + [1e-6, 10.0], dt=DTS + [10, 86400], dxdy=DXS, particles=[1, 3, 8], steps=[1, 2, 3, 50], advection=["", "EF"])
    return dict(D=DS, Dz=DS, dt=DTS, dxdy=DXS, particles=[1, 3], steps=[1, 3], advection=["", "EF"])


def cases(tier, seed):
    b = bounds(tier, seed)
    out = []
    for D, Dz, dt, dxy in itertools.product(b["D"], b["Dz"], b["dt"], range(len(DXS))):
        out.append(dict(D=D, Dz=Dz, dt=dt, dxy=dxy, steps=b["steps"], particles=b["particles"]))
    for D, dt, sg in itertools.product([1e-2, 1.0, 100.0], [60, 3600], [None, [1, 7, 3, 8], [4, 10, 1, 6], [2, 9, 2, 7]]):
        out.append(dict(mode="roms", D=D, dt=dt, subgrid=sg))
    for sg in (None, [2, 9, 2, 7]):  # the real ROMS metric when dx is exactly constant and only dy varies
        out.append(dict(mode="roms", D=1.0, dt=60, subgrid=sg, dxconst=True))
    return out


Tagged = scriptrng.Tagged  # all scalars distinct, any spelling of normal()/standard_normal(), copies handed out


def run_one(D, Dz, dt, dxy, nsteps, npart, adv, inactive=False, wadv=0.0, big=False):
    from ladim.state import State
    from ladim.timekeeper import TimeKeeper
    from ladim.tracker import Tracker

    dx, dy = DXS[dxy]
    cellwise = dy == "cellwise"
    intmetric = dy == "int"
    if intmetric:
        dy = dx
    if cellwise:
        dy = dx
        if not adv or nsteps > 8:
            return None  # the cell-wise metric matters only when the particles travel (and 50 steps of drift would leave the 40x30 grid)
    mods = {}
    mods["time"] = TimeKeeper(start=world.iso(S0), stop=world.iso(S0 + 1000 * dt), dt=dt)
    mods["state"] = st = State()
    mods["grid"] = g = plugin("agrid").Grid(modules=mods, imax=40, jmax=30, dx=dx, dy=dy, h=5000.0, metric="cellwise" if cellwise else "uniform-int" if intmetric else "uniform")
    # cell-wise metric: a steady current carries the particles into cells with another spacing (0.45 cells of the base spacing per step)
    ua, va = (0.45 * dx / dt, 0.3 * dx / dt) if cellwise else (0.0, 0.0)
    mods["forcing"] = fo = plugin("aforce").Forcing(mods, field="const" if cellwise else "still", params=dict(a=ua, b=va, L=1.0), w=wadv, record=False)
    # adversarial history: another tracker with the same coefficients and another time step has diffused before (same process)
    try:
        from ladim.timekeeper import TimeKeeper as _TK

        dm = dict(mods, time=_TK(start=world.iso(S0), stop=world.iso(S0 + 1000 * (7 * dt + 1)), dt=7 * dt + 1), state=State())
        dm["state"].append(X=20.0, Y=15.0, Z=600.0)
        dtr = Tracker(advection=adv, diffusion=D, vertdiff=Dz, modules=dm)
        dtr.rng = Tagged(1e-9)
        dm["time"].update()
        dtr.update()
    except Exception:
        pass
    tr = Tracker(advection=adv, diffusion=D, vertdiff=Dz, vertical_advection=bool(wadv), modules=mods)
    mods["tracker"] = tr
    if not hasattr(tr, "rng"):
        raise util.HarnessError("Tracker has no attribute rng: the random source cannot be scripted")
    sig_h = (2 * D * dt) ** 0.5
    sig_z = (2 * Dz * dt) ** 0.5
    scale = min(1.0, 0.02 / max(sig_h / min(dx, dy), 1e-30), 10.0 / max(sig_z, 1e-30))  # <= 0.02 cells and <= 10 m per step
    if big and sig_h > 0:  # one kick of about 1.4 cells: a random step longer than a grid cell is legal
        scale = 1.4 / (sig_h / min(dx, dy))
    rng = Tagged(scale)
    tr.rng = rng
    X0 = np.array([20.0, 18.5, 21.25, 19.125, 22.5, 17.75, 20.625, 23.0][:npart])
    Y0 = np.array([15.0, 14.5, 16.75, 13.25, 15.5, 16.0, 12.75, 14.0][:npart])
    Z0 = np.array([600.0, 650.0, 700.0, 900.0, 2500.0, 4000.0, 1333.0, 1800.0][:npart])  # far from the surface and from the bottom (5000 m): no reflection
    st.append(X=X0, Y=Y0, Z=Z0)
    if inactive:
        st["active"][0] = False  # a settled particle stored BEFORE the active ones: it must not move, the others must diffuse
    for s in range(nsteps):
        mods["time"].update()
        fo.update()
        xb, yb, zb = st.X.copy(), st.Y.copy(), st.Z.copy()
        c0 = rng.calls
        try:
            tr.update()
        except util.HarnessError:
            raise  # a random primitive that cannot be scripted: undecidable here, not a violation
        except Exception as e:
            return ("exception", repr(e))
        draws = rng.log[c0:]
        pool = np.concatenate(draws) if draws else np.array([])  # every scalar drawn in this step (fresh by construction)
        if not st.alive.all():
            return ("displacement:left-grid", f"step {s}: a particle left the 40x30 grid although the scripted draws allow at most 0.02 cells per step")
        ddx, ddy, ddz = st.X - xb, st.Y - yb, st.Z - zb - wadv * dt
        if inactive and (ddx[0] != 0 or ddy[0] != 0):
            return ("inactive-moved", f"step {s}: the inactive particle was displaced by ({ddx[0]}, {ddy[0]})")
        mdx, mdy = np.full(npart, float(dx)), np.full(npart, float(dy))
        if cellwise:  # the spacing of the cell occupied when the step began; the advective part is removed
            I, J = xb.round().astype(int), yb.round().astype(int)
            mdx, mdy = g.DX[J, I], g.DY[J, I]
            ddx, ddy = ddx - ua * dt / mdx, ddy - va * dt / mdy
        if D == 0 and not cellwise and (np.any(ddx != 0) or np.any(ddy != 0)):
            return ("not-deterministic", f"step {s}: horizontal displacement {ddx},{ddy} with D=0")
        if Dz == 0 and np.any(ddz != 0):
            return ("not-deterministic", f"step {s}: vertical displacement {ddz} with Dz=0")
        used = {}
        for name, disp, sig, metric_, pos in (("x", ddx, sig_h, mdx, xb), ("y", ddy, sig_h, mdy, yb), ("z", ddz, sig_z, np.ones(npart), zb)):
            if sig == 0:
                continue
            for i in range(npart):
                if inactive and i == 0 and name != "z":
                    continue
                metric = float(metric_[i])
                if len(pool) == 0:
                    return ("no-draw", f"step {s}: coefficient > 0 but nothing was drawn")
                exp = sig * pool / metric
                err = np.abs(disp[i] - exp)
                j = int(np.argmin(err))
                if err[j] > 1e-9 * abs(exp[j]) + (64 if cellwise else 16) * np.finfo(float).eps * abs(pos[i]):
                    return (f"displacement:{name}", f"step {s} particle {i}: {name}-displacement {disp[i]} is not sqrt(2*{'Dz' if name == 'z' else 'D'}*dt)/d{name} "
                                                    f"times any value drawn in this step (sigma={sig}, metric={metric}; nearest candidate gives {exp[j]}, ratio {disp[i] / exp[j]})")
                tol_ = 1e-9 * abs(exp[j]) + (64 if cellwise else 16) * np.finfo(float).eps * abs(pos[i])
                if j in used and not rng.big and int((err <= tol_).sum()) == 1:  # (only when the match is unambiguous at the resolution of the position)
                    return ("draw-shared", f"step {s}: the same random value drives {used[j]} and {(name, i)}: displacements not independent")
                used[j] = (name, i)
    return None


def run_roms(case):
    """The real ROMS Grid.metric: spacing varying along eta, subgrids with i0 != j0, still water."""
    from ladim.ROMS import Grid
    from ladim.state import State
    from ladim.timekeeper import TimeKeeper
    from ladim.tracker import Tracker

    jj, ii = np.meshgrid(np.arange(9), np.arange(11), indexing="ij")
    dxs = 400.0 * (1.0 + 0.25 * (jj % 3) + 0.0 * ii)
    if case.get("dxconst"):
        dxs = np.full(jj.shape, 400.0)
    dys = 300.0 * (1.0 + 0.5 * (ii % 2) + 0.0 * jj)  # pm != pn: the spacing along Y is another one
    w = world.World(imax=11, jmax=9, N=2, h=200.0, dx=dxs, dy=dys)
    d = util.scratch("c11")
    D, dt, sg = case["D"], case["dt"], case["subgrid"]
    # another grid under the same path first (a driver that regenerates its grid file for each experiment): nothing of it may be remembered
    w0 = world.World(imax=11, jmax=9, N=2, h=90.0, dx=100.0)
    try:
        Grid(w0.write_file(d / "g.nc", [dict(t=S0, **w0.zeros())]), subgrid=sg)
    except BaseException:
        pass
    f = w.write_file(d / "g.nc", [dict(t=S0, **w.zeros())])
    lim = sg or [1, 10, 1, 8]
    mods = {}
    mods["time"] = TimeKeeper(start=world.iso(S0), stop=world.iso(S0 + 100 * dt), dt=dt)
    mods["state"] = st = State()
    mods["grid"] = Grid(f, subgrid=sg)
    mods["forcing"] = fo = plugin("aforce").Forcing(mods, field="still", record=False)
    tr = Tracker(advection="", diffusion=D, modules=mods)
    mods["tracker"] = tr
    sig = (2 * D * dt) ** 0.5
    rng = Tagged(min(1.0, 0.02 * 400.0 / sig))
    tr.rng = rng
    P = [(x, y) for x in np.arange(lim[0] + 0.8, lim[1] - 1.6, 1.3) for y in np.arange(lim[2] + 0.8, lim[3] - 1.6, 0.9)]
    st.append(X=np.array([p[0] for p in P]), Y=np.array([p[1] for p in P]), Z=5.0)
    n = len(P)
    viols = []
    for s_ in range(2):
        mods["time"].update()
        fo.update()
        xb, yb = st.X.copy(), st.Y.copy()
        c0 = rng.calls
        try:
            tr.update()
        except util.HarnessError:
            raise
        except Exception as e:
            return util.result(evals=1, nontrivial=1, viol=[util.viol("roms-metric:exception", f"{case}: tracker.update raised {e!r}", case)])
        pool = np.concatenate(rng.log[c0:]) if rng.log[c0:] else np.array([])
        for name, disp, pos in (("x", st.X - xb, xb), ("y", st.Y - yb, yb)):
            for i in range(n):
                m = (dxs if name == "x" else dys)[int(round(yb[i])), int(round(xb[i]))]
                exp = sig * pool / m
                j = int(np.argmin(np.abs(disp[i] - exp))) if len(pool) else 0
                if not len(pool) or abs(disp[i] - exp[j]) > 1e-9 * abs(exp[j]) + 16 * np.finfo(float).eps * abs(pos[i]):
                    if not viols:
                        viols.append(util.viol("roms-metric:displacement", f"{case}: particle at ({xb[i]:.2f},{yb[i]:.2f}) {name}-displacement {disp[i]} is not sqrt(2*D*dt)/dx(cell)={sig / m} times a drawn value", case))
    return util.result(evals=2 * n, nontrivial=2 * n, viol=viols, outcomes=[["roms", str(sg)]], states=2 * n, transitions=2 * n, sample=dict(case, particles=n))


def run_case(case):
    viols, n, nt = [], 0, 0
    outcomes = set()
    if case.get("mode") == "roms":
        return run_roms(case)
    combos = [(n_, p_, a_, False, 0.0) for n_, p_, a_ in itertools.product(case["steps"], case["particles"], ["", "EF"])]
    combos += [(2, 3, "", True, 0.0), (2, 3, "EF", True, 0.0)]  # with an inactive particle in front
    if case["D"] > 0 and case["Dz"] == 0:
        combos += [(1, 3, "", False, "big"), (1, 1, "EF", False, "big")]  # one random step longer than a grid cell
    if case["Dz"] > 0:
        combos += [(2, 3, "", False, 0.5 / case["dt"])]  # vertical advection on top of the vertical random walk
    for nsteps, npart, adv, inact, wadv in combos:
        if "only" in case and case["only"] != [nsteps, npart, adv, inact, wadv]:
            continue
        big = wadv == "big"
        res = run_one(case["D"], case["Dz"], case["dt"], case["dxy"], nsteps, npart, adv, inact, 0.0 if big else wadv, big)
        n += nsteps * npart
        if case["D"] > 0 or case["Dz"] > 0:
            nt += 1
        outcomes.add((case["D"] > 0, case["Dz"] > 0))
        if res is not None and not any(v["sig"] == res[0] for v in viols):
            c = dict(case, only=[nsteps, npart, adv, inact, wadv])
            viols.append(util.viol(res[0], f"D={case['D']} Dz={case['Dz']} dt={case['dt']} dx,dy={DXS[case['dxy']]} steps={nsteps} particles={npart} advection={adv!r} inactive-first={inact} w={wadv}: {res[1]}", c))
    return util.result(evals=n, nontrivial=nt, viol=viols, outcomes=[list(o) for o in outcomes], states=n, transitions=n * 3, sample=dict(case))


def warmup():
    run_one(1.0, 1e-2, 600, 1, 1, 3, "EF")
