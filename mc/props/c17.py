"""C17 - the compiled sampling kernels never read outside the forcing arrays.

Three passes over a boundary-focused scenario space:
 jit   : the compiled kernels with NUMBA_BOUNDSCHECK=1 (raises on indices beyond the upper bound);
 proxy : the kernels' .py_func on index-recording ndarray proxies (also sees negative, i.e. wrapping, indices),
         installed by rebinding ladim.ROMS.trilinear / z2s_kernel in the harness process;
 kernel: the kernels called directly on every position of a 0.01 lattice of the producible domain.
"""

from __future__ import annotations

import itertools
import os

import numpy as np

from mc import drive, scriptrng, util, world

ENV = dict(NUMBA_BOUNDSCHECK="1")  # applied by the runner before ladim.ROMS / numba are imported

ID = "C17"
LEVEL = "model_checking"
RULE = (
    "flow direction (8) x speed {0.5,0.9,1.5,3 cells/step} x scheme x subgrid (touching / not touching the global boundary) x vertical mode x "
    "diffusion kick script, each run with particles within 0.6 cell of every edge and corner of the valid region at depths {surface, mid, bottom, beyond}, "
    "run twice (compiled+boundscheck, python kernels on index-checking proxies); plus the kernel-level 0.01 position lattice; "
    "non-trivial = a run in which at least one Runge-Kutta stage position was clipped or a particle left the grid; lattice points distinct by construction"
)
RULE += " Beyond the lattice (chosen scenarios, not enumerated): 2600 particles released in one step; Runge-Kutta stages exactly on a grid limit; signature-agnostic kernel proxies with write checks."
ASSUMPTIONS = [
    "memory safety of numba-generated code itself is trusted once indices are in range",
    "NUMBA_BOUNDSCHECK=1 catches indices beyond the upper bound only; negative (wrapping) indices are caught by the proxy pass",
]

S0 = world.tosec("2020-01-01T00:00:00")
DT = 600
DIRS = [(1, 0), (-1, 0), (0, 1), (0, -1), (1, 1), (-1, 1), (1, -1), (-1, -1)]
SPEEDS = [0.3, 0.5, 0.9, 1.5, 3.0]
SUBGRIDS = [None, [1, 7, 4, 9], [5, 10, 1, 6], [2, 8, 2, 7], [1, 6, 1, 5], [4, 9, 3, 8]]  # incl. j0 >= i0+2 and i0 >= j0+2


class OutOfBounds(IndexError):
    pass


class Checked(np.ndarray):
    """ndarray view whose integer subscripts must satisfy 0 <= idx < shape on every axis."""

    def __getitem__(self, idx):
        tup = idx if isinstance(idx, tuple) else (idx,)
        for ax, k in enumerate(tup):
            if isinstance(k, (int, np.integer)):
                if k < 0:
                    raise OutOfBounds(f"negative index {int(k)} on axis {ax} of array with shape {self.shape} (subscript {tup})")
                if k >= self.shape[ax]:
                    raise OutOfBounds(f"index {int(k)} >= size {self.shape[ax]} on axis {ax} of array with shape {self.shape} (subscript {tup})")
        return super().__getitem__(idx)

    def __setitem__(self, idx, val):
        tup = idx if isinstance(idx, tuple) else (idx,)
        for ax, k in enumerate(tup):
            if isinstance(k, (int, np.integer)) and not 0 <= k < self.shape[ax]:
                raise OutOfBounds(f"write at index {int(k)} on axis {ax} of array with shape {self.shape} (subscript {tup})")
        return super().__setitem__(idx, val)


_ORIG = {}


def install(mode):
    import ladim.ROMS as R

    if not _ORIG:
        _ORIG["trilinear"], _ORIG["z2s_kernel"] = R.trilinear, R.z2s_kernel
    if mode == "jit":
        R.trilinear, R.z2s_kernel = _ORIG["trilinear"], _ORIG["z2s_kernel"]
    else:
        tri, zk = _ORIG["trilinear"].py_func, _ORIG["z2s_kernel"].py_func

        chk = lambda a: a.view(Checked) if isinstance(a, np.ndarray) else a  # noqa: E731  (whatever the kernels' signatures are)

        def trilinear(*args, **kw):
            return tri(*[chk(a) for a in args], **{k: chk(v) for k, v in kw.items()})

        def z2s_kernel(*args, **kw):
            return zk(*[chk(a) for a in args], **{k: chk(v) for k, v in kw.items()})

        R.trilinear, R.z2s_kernel = trilinear, z2s_kernel


def bounds(tier, seed):
    return dict(dirs=8, speeds=SPEEDS, schemes=["EF", "RK2", "RK4"], subgrids=SUBGRIDS if tier == "thorough" else SUBGRIDS[:3] + [SUBGRIDS[3 + seed % 3]],
                vertical=["off", "advection+diffusion"], kicks=["none", "big"], kernel_lattice=0.01)


def cases(tier, seed):
    b = bounds(tier, seed)
    out = []
    for di, sp, sch, sg, vert, kick in itertools.product(range(8), SPEEDS, b["schemes"], b["subgrids"], b["vertical"], b["kicks"]):
        if kick == "big" and (sp != 0.9 or vert != "off"):
            continue
        out.append(dict(mode="run", dir=di, speed=sp, scheme=sch, subgrid=sg, vertical=vert, kick=kick))
    # stages exactly ON a grid limit (the clip must catch equality as well)
    for di, sch, sg in itertools.product(range(4), ["RK2", "RK4"], [None, [2, 14, 1, 12]]):
        out.append(dict(mode="run", dir=di, speed=4.0, scheme=sch, subgrid=sg, vertical="off", kick="none", exact=True))
    # beyond the lattice: thousands of particles released in one step (work arrays that grow, chunked loops)
    for sch in b["schemes"]:
        out.append(dict(mode="run", dir=4, speed=0.5, scheme=sch, subgrid=None, vertical="advection+diffusion", kick="none", crowd=2600))
    for shape in ([2, 4, 5], [3, 6, 4], [5, 3, 3]) if tier == "quick" else ([2, 4, 5], [3, 6, 4], [5, 3, 3], [1, 4, 4], [8, 9, 7]):
        for mode in ("jit", "proxy"):
            out.append(dict(mode="kernel", shape=shape, pass_=mode))
    return out


Scripted = scriptrng.Alternating  # +val, -val, ... along the stream of drawn scalars, whatever the call structure


WX = world.World(imax=16, jmax=15, N=3, h=40.0, dx=1024.0, theta_s=3.0, theta_b=0.4, hc=5.0)
W = world.World(imax=11, jmax=10, N=3, h=np.fromfunction(lambda j, i: 20.0 + 3 * i + 5 * j, (10, 11)), dx=800.0, theta_s=3.0, theta_b=0.4, hc=5.0)


def seeds(lim):
    """Start positions within 0.6 cell of every edge and corner of the valid region."""
    i0, i1, j0, j1 = lim
    xl, xh, yl, yh = i0 + 0.5, i1 - 1.5, j0 + 0.5, j1 - 1.5
    xm, ym = (xl + xh) / 2, (yl + yh) / 2
    # incl. release positions in the half-cell margin between the valid region and the limit of the velocity arrays
    xs = [xl - 0.45, xl + 0.01, xl + 0.3, xl + 0.59, xm, xh - 0.59, xh - 0.3, xh - 0.01, xh + 0.2, xh + 0.45]
    ys = [yl - 0.45, yl + 0.01, yl + 0.3, yl + 0.59, ym, yh - 0.59, yh - 0.3, yh - 0.01, yh + 0.2, yh + 0.45]
    P = []
    for x in xs:
        for y in ys:
            if abs(x - xm) < 1e-9 and abs(y - ym) < 1e-9:
                continue
            if x in xs[:4] + xs[-5:] or y in ys[:4] + ys[-5:]:
                P.append((x, y))
    return P


def run_scenario(case, mode):
    """One end-to-end run with the given kernel pass. Returns (sig, msg) or None, and run facts."""
    install(mode)
    d = util.scratch("c17")
    exact = bool(case.get("exact"))
    # `exact`: dx = 1024 m, dt = 512 s, 8 m/s: exactly 4 cells per step, so that Runge-Kutta stages land EXACTLY on the limits of the grid
    Wd, dx, DTd = (WX, 1024.0, 512) if exact else (W, 800.0, DT)
    ux, uy = DIRS[case["dir"]]
    u, v = ux * case["speed"] * dx / DTd, uy * case["speed"] * dx / DTd
    fr = Wd.uniform(u, v)
    fr["temp"] = np.fromfunction(lambda k, j, i: 1.0 * k + 0.25 * j + 0.125 * i, (Wd.N, Wd.jmax, Wd.imax))
    fr["w"] = np.full((Wd.N, Wd.jmax, Wd.imax), 0.002)
    Wd.write_file(d / "f.nc", [dict(t=S0 - DTd, **fr), dict(t=S0 + 4 * DTd, **fr)], storage="f4")
    sg = case["subgrid"]
    lim = sg or [1, Wd.imax - 1, 1, Wd.jmax - 1]
    rows = []
    for x, y in seeds(lim):
        ic, jc = int(round(x)), int(round(y))
        h = float(Wd.h[jc, ic])
        for z in (0.0, h / 2, h, h + 30.0):
            rows.append(dict(release_time=world.iso(S0), X=x, Y=y, Z=z))
    if exact:
        # grid limits of ladim: xmin = i0, xmax = i1 - 1 (likewise y). Start 2 cells (half a step) and 4 cells (a whole step) before the limit the flow
        # heads for, on lines through the middle of the grid: the mid-point stages of RK2/RK4 and the last stage of RK4 are exactly ON the limit
        xm, ym = 0.5 * (lim[0] + lim[1] - 1), 0.5 * (lim[2] + lim[3] - 1)
        rows = []
        for back in (2.0, 4.0):
            x = (lim[1] - 1 - back) if ux > 0 else (lim[0] + back) if ux < 0 else xm
            y = (lim[3] - 1 - back) if uy > 0 else (lim[2] + back) if uy < 0 else ym
            rows += [dict(release_time=world.iso(S0), X=float(x), Y=float(y), Z=0.0), dict(release_time=world.iso(S0), X=float(x), Y=float(y), Z=7.0)]
    if case.get("crowd"):  # a first small release, then a crowd in the next step: the particle count grows 100-fold at once
        rows = rows[:24] + [dict(release_time=world.iso(S0 + DT), X=x, Y=y, Z=5.0 + (k % 7)) for k, (x, y) in enumerate(itertools.islice(itertools.cycle(seeds(lim)), case["crowd"]))]
    tracker = dict(advection=case["scheme"])
    state = dict(instance_variables=dict(temp="float", w="float"), default_values=dict(temp=0.0, w=0.0))
    if case["vertical"] != "off":
        tracker.update(vertical_advection=True, vertdiff=1e-3)
    if case["kick"] != "none":
        tracker.update(diffusion=10.0)
    conf = drive.roms_conf(d, d / "f.nc", S0, S0 + 3 * DTd, DTd, rows, tracker=tracker, subgrid=sg, extra_forcing=["temp", "w"], state=state,
                           outvars=("pid", "X", "Y", "Z", "temp"))
    facts = dict(left=0, n=len(rows))
    if case["vertical"] == "off" and case["dir"] % 2 == 0:
        # the vertical set-up given in the configuration (Vinfo) instead of being read from the grid file (same values)
        conf["grid"]["Vinfo"] = dict(N=Wd.N, hc=5.0, theta_s=3.0, theta_b=0.4, Vstretching=1, Vtransform=1)
    try:
        # adversarial history: another Grid on the SAME file with a smaller subgrid was built earlier in this process
        from ladim.ROMS import Grid as _Grid

        _Grid(str(d / "f.nc"), subgrid=[1, 5, 1, 4])
    except BaseException:
        pass
    try:
        model = drive.make_model(conf, d)
        # a second model on a smaller rectangle of the same files is set up BEFORE the first one is stepped (two nested domains prepared in one
        # script): the arrays of the second must not replace those the first one samples
        try:
            import copy as _copy

            c2 = _copy.deepcopy(conf)
            c2["grid"]["subgrid"] = [1, 5, 1, 4]
            c2["output"]["filename"] = str(d / "decoy_out.nc")
            c2["release"]["release_file"] = str(d / "decoy.rls")
            world.write_release(d / "decoy.rls", [dict(release_time=world.iso(S0), X=2.5, Y=2.0, Z=1.0)])
            drive.make_model(c2, d)
        except drive.RunFailed:
            pass
        if case["kick"] != "none" or case["vertical"] != "off":
            model.tracker.rng = Scripted(2.5 if case["kick"] == "big" else 0.7)
        for _ in range(model.timer.Nsteps):
            model.update()
            facts["left"] = max(facts["left"], len(rows) - int(model.state.alive.sum()))
        model.finish()
    except drive.RunFailed as e:
        kind = "index-out-of-range" if e.kind in ("IndexError", "OutOfBounds") else "crash:" + e.kind
        return (f"{mode}:{kind}", f"{e}"), facts
    except OutOfBounds as e:
        neg = "negative" in str(e)
        return (f"{mode}:index-out-of-range" + (":negative" if neg else ""), str(e)), facts
    except IndexError as e:
        return (f"{mode}:index-out-of-range", repr(e)), facts
    except util.HarnessError:
        raise
    except Exception as e:
        return (f"{mode}:crash:{type(e).__name__}", repr(e)), facts
    finally:
        install("jit")
    return None, facts


def run_run(case):
    viols, nt = [], 0
    passes = [case["pass_"]] if "pass_" in case else ["jit", "proxy"]
    for mode in passes:
        res, facts = run_scenario(case, mode)
        if facts["left"] > 0 or case["speed"] >= 0.9:
            nt += 1
        if res is not None:
            viols.append(util.viol(res[0], f"{ {k: v for k, v in case.items() if k != 'mode'} } [{mode} pass]: {res[1]}", dict(case, pass_=mode)))
    return util.result(evals=len(passes), nontrivial=nt, viol=viols, outcomes=[[facts["left"] > 0, case["scheme"]]], states=3 * facts["n"], transitions=3 * facts["n"] * 4,
                       sample=dict(case, particles=facts["n"], left_grid=facts["left"]))


def run_kernel(case):
    """Kernel-level lattice: every position on a 0.01 lattice of the producible domain."""
    import ladim.ROMS as R

    install(case["pass_"])
    N, jm, im = case["shape"]  # rho-array shape of the loaded rectangle
    step = 0.01 if case["pass_"] == "jit" else 0.05
    viols, n = [], 0
    try:
        zr = np.sort(-np.linspace(1.0, 40.0, N))[:, None, None] * np.ones((1, jm, im))
        F = np.arange(N * jm * im, dtype=float).reshape(N, jm, im)
        U = np.arange(N * jm * (im + 1), dtype=float).reshape(N, jm, im + 1)
        V = np.arange(N * (jm + 1) * im, dtype=float).reshape(N, jm + 1, im)
        # stage positions may lie in [0.01, imax-1.01]; state positions in (0.5, imax-1.5)
        xs = np.arange(0.01, im - 1.01 + 1e-9, step)
        ys = np.arange(0.01, jm - 1.01 + 1e-9, step)
        for y in list(ys[:: max(1, len(ys) // 12)]) + [ys[-1]]:
            X, Y = xs.copy(), np.full(len(xs), y)
            for z in (-3.0, 0.0, 1.0, 17.3, 40.0, 55.0):
                Z = np.full(len(xs), z)
                K, A = R.z2s(zr, X, Y, Z)
                R.sample3DUV(U, V, X, Y, K, A)
                R.sample3D(F, X, Y, K, A, method="nearest")
                n += len(xs)
        for x in list(xs[:: max(1, len(xs) // 12)]) + [xs[-1]]:
            Y, X = ys.copy(), np.full(len(ys), x)
            Z = np.full(len(ys), 9.0)
            K, A = R.z2s(zr, X, Y, Z)
            R.sample3DUV(U, V, X, Y, K, A)
            n += len(ys)
    except (IndexError, OutOfBounds) as e:
        sig = f"{case['pass_']}:kernel-lattice:index-out-of-range" + (":N=1" if N == 1 else "")
        viols.append(util.viol(sig, f"shape {case['shape']}: {e}", case))
    finally:
        install("jit")
    return util.result(evals=max(n, 1), nontrivial=n, viol=viols, outcomes=[case["pass_"]], states=n, transitions=n, sample=case)


def warmup():
    import numba

    if not numba.config.BOUNDSCHECK:
        raise util.HarnessError("NUMBA_BOUNDSCHECK is not active")
    run_scenario(dict(dir=0, speed=0.5, scheme="RK4", subgrid=None, vertical="advection+diffusion", kick="none"), "jit")


def run_case(case):
    return dict(run=run_run, kernel=run_kernel)[case["mode"]](case)
