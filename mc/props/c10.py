"""C10 - backward tracking = forward tracking in the time-mirrored, sign-flipped flow.

Two end-to-end Model runs per case on synthetic ROMS worlds: reversed S -> E, and forward S -> 2S-E with the
frames mirrored about S carrying (-u, -v) and the release times mirrored. Record for record the same pids
at the same positions; the reversed run's time coordinate reads S, S-period, ...
"""

from __future__ import annotations

import itertools

import numpy as np

from mc import drive, util, world

ID = "C10"
LEVEL = "model_checking"
RULE = (
    "frame layouts (irregular spacing, spacing = dt, frame at start or not) x file compositions (one file / one frame per file / split) x release tables "
    "(2-3 release times, discrete and continuous) x scheme x run length x output period; non-trivial = at least 2 release times inside the window and a "
    "frame hand-over inside the run; lattice points distinct by construction"
)
RULE += " Beyond the lattice (chosen scenarios, not enumerated): vertical advection (w mirrored, depth compared) and a reference time in another century in one slice."
ASSUMPTIONS = ["scalar forcing under reversal excluded (its timing convention is fixed in C03)", "diffusion off", "frames and releases on the model time grid"]

S0 = world.tosec("2020-07-01T12:00:00")
DT = 600
TAGS = [0.5, -0.25, 1.0, 0.125, -0.75, 0.375, 0.875, -0.5, 0.25, -1.0, 0.625, -0.125, 0.75, -0.375, 0.3125]
LAYOUTS = {
    4: [[-2, 3, 6], [0, 4], [-1, 0, 1, 2, 3, 4], [-3, 1, 2, 7], [0, 1, 5]],
    6: [[-2, 3, 8], [0, 6], [-1, 0, 1, 2, 3, 4, 5, 6], [-3, 2, 4, 9], [0, 1, 5, 7], [-1, 6]],
    7: [[-2, 3, 8], [0, 7], [-1, 2, 3, 9], [0, 3, 4, 7]],
}
TABLES = [
    dict(kind="discrete", rows=[(0, 1), (2, 2), (3, 1)]),
    dict(kind="discrete", rows=[(0, 2), (1, 1)]),
    dict(kind="discrete", rows=[(-1, 1), (0, 1), (3, 1), (99, 1)]),
    dict(kind="continuous", freq=1, rows=[(0, 1), (3, 2)]),
    dict(kind="continuous", freq=2, rows=[(-2, 1), (2, 1)]),
    # several rows (different positions) sharing a release time: the order inside a release group is part of the particles' identity
    dict(kind="discrete", rows=[(0, 1), (0, 1), (2, 1), (2, 2), (2, 1)]),
    dict(kind="continuous", freq=2, rows=[(0, 1), (0, 2), (4, 1), (4, 1)]),  # file times on the tick grid, as the quantifier demands
]


def bounds(tier, seed):
    return dict(nsteps=[4, 6] if tier == "quick" else [4, 6, 7], schemes=["EF", "RK2", "RK4"], periods=[1, 2], tables=len(TABLES), compositions=["one", "each", "split"])


def cases(tier, seed):
    b = bounds(tier, seed)
    out = []
    k = seed
    for n in b["nsteps"]:
        for li, lay in enumerate(LAYOUTS[n]):
            for comp in b["compositions"]:
                for ti in range(len(TABLES)):
                    k += 1
                    combos = list(itertools.product(b["schemes"], b["periods"])) if tier == "thorough" else [(b["schemes"][k % 3], 1 + (k // 3) % 2)]
                    for sch, P in combos:
                        out.append(dict(nsteps=n, layout=lay, comp=comp, table=ti, scheme=sch, period=P, storage=("i2" if k % 4 == 0 else "f4" if k % 4 == 2 else "f8")))
                    if ti == 0:  # (in every file composition: with the start between two files the first scalar read straddles them)
                        # vertical advection switched on: depth is part of the position, w is part of the velocity field
                        out.append(dict(nsteps=n, layout=lay, comp=comp, table=ti, scheme=b["schemes"][k % 3], period=1, vertical=True))
                    if comp == "split" and ti in (0, 3):
                        # the same differential with frames, release times and the output period OFF the step grid
                        out.append(dict(nsteps=n, layout=lay, comp=comp, table=ti, scheme=b["schemes"][k % 3], period=1, offgrid=True))
    return out


W = world.World(imax=10, jmax=9, N=2, h=40.0, dx=800.0, mask=(lambda m: (m.__setitem__((5, 6), 0), m)[1])(np.ones((9, 10))))


def field(slot, sign):
    c = TAGS[(slot + 3) % len(TAGS)] * sign
    ju, iu = np.meshgrid(np.arange(W.jmax), np.arange(W.imax - 1) + 0.5, indexing="ij")
    jv, iv = np.meshgrid(np.arange(W.jmax - 1) + 0.5, np.arange(W.imax), indexing="ij")
    z = W.zeros()
    z["u"] += (c * (0.25 + 0.03125 * ju))[None]
    z["v"] += (c * (-0.125 + 0.03125 * iv))[None]
    z["w"] = np.full((W.N, W.jmax, W.imax), c * 2.0 ** -9)  # metres per second, positive downwards (ladim's depth convention)
    return z


def files_of(layout, comp):
    if comp == "one":
        return [list(layout)]
    if comp == "each":
        return [[s] for s in layout]
    h = max(1, len(layout) // 2)
    return [list(layout[:h]), list(layout[h:])]


def run_dir(case, rev):
    """rev=True: the reversed run; rev=False: the mirrored forward run. Returns (records, release log) or raises RunFailed."""
    d = util.scratch("c10")
    n, P = case["nsteps"], case["period"]
    sgn = -1 if rev else 1
    groups = files_of(case["layout"], case["comp"])
    # files in calendar order
    cal = [sorted(g, key=lambda s: sgn * s) for g in groups]
    cal.sort(key=lambda g: sgn * g[0])
    off = 200.4 if case.get("offgrid") else 0  # seconds (with a sub-second part) later in simulation order; the first frame stays, so the window is covered
    first = min(case["layout"])
    for fi, g in enumerate(cal):
        last = max(case["layout"])
        # middle frames: 0.4 s BEFORE a step boundary in simulation order (in a reversed run: a fraction of a second after a model time)
        lay_ = sorted(case["layout"])
        gap = {s_: s_ - lay_[i_ - 1] for i_, s_ in enumerate(lay_) if i_ > 0}  # a frame moved back must not share a step with its predecessor
        foff = lambda s_: 0 if (not off or s_ == first) else (-0.4 if (s_ != last and gap[s_] >= 2) else (off if gap[s_] >= 2 or s_ == last else 0))  # noqa: E731
        keep = (lambda z: z) if case.get("vertical") else (lambda z: {k_: v_ for k_, v_ in z.items() if k_ != "w"})  # noqa: E731
        W.write_file(d / f"f_{fi:02d}.nc", [dict(t=S0 + sgn * (s * DT + foff(s)), **keep(field(s, 1 if rev else -1))) for s in g],
                     storage=case.get("storage", "f8"), scale=dict(u=(2.0 ** -12, 0.0), v=(2.0 ** -12, 0.0)))
    tab = TABLES[case["table"]]
    rows = []
    pos = [(3.3, 3.6), (4.7, 2.4), (2.6, 5.2), (5.4, 4.1)]
    for k, (slot, mult) in enumerate(tab["rows"]):
        x, y = pos[k % 4]
        roff = 250 if (case.get("offgrid") and tab["kind"] == "discrete" and k == 1) else 0
        rows.append(dict(mult=mult, release_time=world.iso(S0 + sgn * (slot * DT + roff)), X=x, Y=y, Z=5.0, tag=10 + k))
    rel_extra = {}
    if tab["kind"] == "continuous":
        rel_extra = dict(continuous=True, release_frequency=tab["freq"] * DT)
    vert = bool(case.get("vertical"))
    conf = drive.roms_conf(d, d / "f_*.nc", S0, S0 + sgn * n * DT, DT, rows, outvars=("pid", "X", "Y", "Z", "tag"), period=P * DT + (DT // 2 if case.get("offgrid") else 0),
                           tracker=dict(advection=case["scheme"], **(dict(vertical_advection=True) if vert else {})), reversed_=rev, release_extra=rel_extra,
                           state=dict(instance_variables=dict(tag="int", **(dict(w="float") if vert else {}))), extra_forcing=["w"] if vert else None,
                           reference=world.tosec("1948-01-01T00:00:00") if vert else None)  # one slice counts its output time from another century
    conf["output"]["instance_variables"]["tag"] = world.ovar("i4")
    # a model of the OPPOSITE direction set up first in the same process on the same files, start and time step ("where does the water at S go,
    # where did it come from" in one script); it fails to start when the frames do not reach beyond S, which is fine - nothing of it may stick
    try:
        if not rev:  # only before the reversed run: a decoy before both runs would disturb both alike and the mirror differential would not see it
            raise drive.RunFailed("skipped", "")
        dconf = drive.roms_conf(d, d / "f_*.nc", S0, S0 - sgn * DT, DT, [dict(mult=1, release_time=world.iso(S0), X=3.3, Y=3.6, Z=5.0, tag=1)], outvars=("pid", "X"),
                                tracker=dict(advection=case["scheme"]), reversed_=not rev, state=dict(instance_variables=dict(tag="int")), filename="decoy.nc", release_name="decoy.rls")
        m = drive.make_model(dconf, d)
        m.finish()
    except drive.RunFailed:
        pass
    clock = []
    drive.run_model(conf, d, after_step=lambda m, k: clock.append((m.timer.step, world.tosec(m.timer.time))))
    out = world.read_output([d / "out.nc"])
    return out["records"], clock


def expected_releases(case):
    """Reference: which row tags appear at which step (C04's schedule, both directions alike)."""
    tab, n = TABLES[case["table"]], case["nsteps"]
    sched = {s: [] for s in range(n)}
    if tab["kind"] == "discrete":
        for k, (slot, mult) in enumerate(tab["rows"]):
            if 0 <= slot < n:
                sched[slot] += [10 + k] * mult
    else:
        ft = sorted({r[0] for r in tab["rows"]})
        t = ft[0]
        while t < n:
            cur = max(x for x in ft if x <= t)
            if t >= 0:
                for k, (slot, mult) in enumerate(tab["rows"]):
                    if slot == cur:
                        sched[t] += [10 + k] * mult
            t += tab["freq"]
    return sched


def run_case(case):
    viols = []

    def bad(sig, msg):
        if not any(v["sig"] == sig for v in viols):
            viols.append(util.viol(sig, f"{case}: {msg}", case))

    n, P = case["nsteps"], case["period"]
    try:
        rrec, rclock = run_dir(case, True)
    except drive.RunFailed as e:
        bad("crash:reversed", str(e))
        return util.result(viol=viols, nontrivial=1, outcomes=["crash"])
    try:
        frec, fclock = run_dir(case, False)
    except drive.RunFailed as e:
        bad("crash:forward-mirror", str(e))
        return util.result(viol=viols, nontrivial=1, outcomes=["crash"])
    for k, (step, t) in enumerate(rclock):
        if step != k or t != S0 - k * DT:
            bad("clock:reversed", f"reversed clock at step {k} reads step {step}, time S{t - S0:+d}s expected S{-k * DT:+d}s")
            break
    if len(rrec) != len(frec):
        bad("records:count", f"{len(rrec)} reversed records vs {len(frec)} forward records")
    sched = expected_releases(case)
    seen = 0
    for k, (a, b) in enumerate(zip(rrec, frec)):
        if a["time"] != float(S0 - k * P * DT):
            bad("time-coordinate:reversed", f"record {k} of the reversed run decodes to S{a['time'] - S0:+.0f}s expected S{-k * P * DT:+d}s")
        if b["time"] != float(S0 + k * P * DT):
            bad("time-coordinate:forward", f"record {k} of the forward run decodes to S{b['time'] - S0:+.0f}s")
        pa, pb = a["vars"]["pid"].tolist(), b["vars"]["pid"].tolist()
        if pa != pb or a["vars"]["tag"].tolist() != b["vars"]["tag"].tolist():
            bad("mirror:particles", f"record {k}: reversed pids/tags {pa}/{a['vars']['tag'].tolist()} vs forward {pb}/{b['vars']['tag'].tolist()}")
            continue
        dxy = max([0.0] + [abs(x - y) for x, y in zip(a["vars"]["X"].tolist() + a["vars"]["Y"].tolist(), b["vars"]["X"].tolist() + b["vars"]["Y"].tolist())])
        dz = max([0.0] + [abs(x - y) for x, y in zip(a["vars"]["Z"].tolist(), b["vars"]["Z"].tolist())])
        if dz > 1e-9:
            bad("mirror:depth", f"record {k}: depths differ by {dz}: reversed Z={a['vars']['Z'].tolist()} forward Z={b['vars']['Z'].tolist()}" + (" (vertical advection on)" if case.get("vertical") else ""))
        if dxy > 1e-12:
            bad("mirror:positions", f"record {k}: positions differ by {dxy}: reversed X={a['vars']['X'].tolist()} forward X={b['vars']['X'].tolist()}")
        # each release happens at its stated time: new pids at record k are exactly those scheduled in steps (k-1)P+1 .. kP
        exp_new = []
        for s in range(0 if k == 0 else (k - 1) * P + 1, k * P + 1):
            exp_new += sched.get(s, [])
        got_new = [t for p, t in zip(pa, a["vars"]["tag"].tolist()) if p >= seen]
        if sorted(got_new) != sorted(exp_new) and not case.get("offgrid"):
            # particles released and lost before the record cannot be seen: compare only when nobody left
            if len(pa) == (max(pa) + 1 if pa else 0):
                bad("release-time:reversed", f"record {k}: newly appeared row tags {got_new} expected {exp_new}")
        seen = (max(pa) + 1) if pa else seen
    inside = [s for s in sched if sched[s]]
    handover = any(0 < s < n for s in case["layout"])
    nt = int(len(inside) >= 2 and handover)
    return util.result(evals=2, nontrivial=nt, viol=viols, outcomes=[[len(rrec), len(inside)]], states=2 * n, transitions=2 * n, sample=dict(case, releases={str(k): v for k, v in sched.items()}))


def warmup():
    run_dir(dict(nsteps=4, layout=[0, 4], comp="one", table=0, scheme="RK4", period=1), True)
