"""C06 - output records are faithful snapshots in a well-formed ragged or dense file.

All release/death histories up to a bound are run through the assembled Model (real State,
TimeKeeper, ParticleReleaser, Tracker, Output; analytic grid/forcing plug-ins; scripted IBM).
A recording forcing wrapper snapshots the state right after forcing.update() - exactly what a
record due at that step must show. Files are read back by a reader written from the format
documentation.
"""

from __future__ import annotations

import itertools
import math

import numpy as np

from mc import drive, util, world

ID = "C06"
LEVEL = "model_checking"
RULE = (
    "every history of (releases in {0,1,2}, deaths in {none, lowest pid, highest pid, all}) per record interval up to the bound, "
    "crossed with layout, output period and direction (forward; time-reversed for all histories up to 2 records and a quarter (thorough: all, with one round-robin combination of the other dimensions) of the longer ones), other dimensions (particle variables, reference time, numrec) assigned round-robin; "
    "non-trivial = some particle dies before a later record AND some record holds >= 1 particle; lattice points distinct by construction"
)
RULE += " Beyond the lattice (chosen scenarios, not enumerated): crowds of 120-700 particles; a reference time in another century; every dense variable also read in one piece with sentinel-initialised buffers."
ASSUMPTIONS = ["analytic grid/forcing plug-ins; NETCDF4 data model only"]

S0 = world.tosec("2020-05-10T06:00:00")
DT = 60
REL = [0, 1, 2]
DEATH = ["none", "low", "high", "all"]  # ("mid", a death out of release order that leaves ONE gap inside the living identifiers, appears in the chosen scenarios only)
PVARS = ["none", "float", "time"]
REFS = ["default", "earlier", "later"]
FAR = "1900-01-01T00:00:00"  # more than 2**31 seconds before the run: the time coordinate needs the full range and resolution of a double


def bounds(tier, seed):
    return dict(records=3 if tier == "quick" else 4, periods=[1, 2], layouts=["sparse", "dense"], numrec=[0, 2], pvars=PVARS, refs=REFS)


def cases(tier, seed):
    b = bounds(tier, seed)
    out = []
    idx = seed
    for R in range(1, b["records"] + 1):
        for hist in itertools.product(itertools.product(REL, DEATH), repeat=R):
            if sum(h[0] for h in hist) == 0:
                continue
            for layout, period in itertools.product(b["layouts"], b["periods"]):
                idx += 1
                combos = [(PVARS[idx % 3], REFS[(idx // 3) % 3], b["numrec"][(idx // 9) % 2])]
                if tier == "thorough" and R <= 3:
                    combos = list(itertools.product(PVARS, REFS, b["numrec"]))
                for pv, ref, numrec in combos:
                    out.append(dict(hist=[list(h) for h in hist], layout=layout, period=period, pvars=pv, ref=ref, numrec=numrec, packed=bool((idx // 5) % 2), itime=bool(idx % 5 == 2)))
                    # the same history in a time-reversed run: all histories up to 2 records, every fourth beyond (thorough: with the round-robin combination)
                    if R <= 2 or ((idx % 4 == 0 or (tier == "thorough" and R == 3)) and (pv, ref, numrec) == (PVARS[idx % 3], REFS[(idx // 3) % 3], b["numrec"][(idx // 9) % 2])):
                        out.append(dict(hist=[list(h) for h in hist], layout=layout, period=period, pvars=pv, ref=ref, numrec=numrec, rev=True, packed=bool((idx // 7) % 2)))
    # beyond the small lattice: a crowd (a death among hundreds must still be removed) and a reference time in another century
    for layout, (crowd, death) in itertools.product(b["layouts"], [(300, "low"), (700, "high"), (120, "low")]):
        out.append(dict(hist=[[crowd, death], [0, "high"], [1, "none"], [0, "low"]], layout=layout, period=1, pvars="float", ref="default", numrec=2))
    for layout, pv, rev in itertools.product(b["layouts"], ["time", "none"], [False, True]):
        out.append(dict(hist=[[2, "low"], [1, "none"], [0, "high"]], layout=layout, period=2, pvars=pv, ref="far", numrec=0, rev=rev))
    # deaths out of release order: exactly one gap, two gaps, a gap next to the end of the living identifiers
    for layout, hist in itertools.product(b["layouts"], ([[2, "none"], [2, "mid"], [1, "none"]], [[2, "none"], [2, "mid"], [0, "mid"], [1, "none"]], [[2, "mid"], [2, "low"], [1, "mid"]], [[1, "none"], [2, "mid"], [2, "high"], [0, "mid"]])):
        for pv, numrec in (("float", 0), ("none", 2)):
            out.append(dict(hist=hist, layout=layout, period=1, pvars=pv, ref="default", numrec=numrec, packed=(numrec == 2)))
    # two set-ups run one after the other in one process from the SAME variable-definition dictionaries (a script looping over experiments),
    # the second with another reference time: nothing of the first run may stick to the tables
    for layout, pv, numrec in itertools.product(b["layouts"], ["time", "float"], b["numrec"]):
        out.append(dict(hist=[[2, "none"], [1, "low"], [1, "none"]], layout=layout, period=1, pvars=pv, ref="earlier", numrec=numrec, twice=True))
    return out


def plan(case):
    """Reference model of the history: rows to release, IBM kill script, expected living pids per record."""
    P = case["period"]
    sign = -1 if case.get("rev") else 1
    R = len(case["hist"])
    nsteps = (R - 1) * P + 1 + (1 if P == 2 and R % 2 == 0 else 0)  # sometimes a trailing non-record step
    rows, kills, living, npid = [], {}, [], 0
    rec_living, released_at_rec = [], []
    info = {}
    for i, (nrel, death) in enumerate(case["hist"]):
        s = i * P
        for k in range(nrel):
            pid = npid
            npid += 1
            info[pid] = dict(X=3.0 + (pid % 16) * 0.5 + 0.015625 * (pid // 16 % 8), Y=4.0 + (pid % 3), Z=1.0 + pid % 40, weight=10.0 + pid, t=S0 + sign * s * DT)
            rows.append(dict(release_time=world.iso(S0 + sign * s * DT), X=info[pid]["X"], Y=info[pid]["Y"], Z=info[pid]["Z"], weight=info[pid]["weight"]))
            if case.get("itime"):  # a time-typed INSTANCE variable: the hour after the release, carried by the particle
                rows[-1]["born"] = world.iso(S0 + sign * s * DT + 3600)
            living.append(pid)
        rec_living.append(list(living))
        released_at_rec.append(npid)
        dead = []
        if living:
            dead = dict(none=[], low=[living[0]], high=[living[-1]], all=list(living), mid=[living[len(living) // 2]] if len(living) >= 3 else [])[death]
        if dead:
            kills[s] = dead
            living = [p for p in living if p not in dead]
    return dict(nsteps=nsteps, rows=rows, kills=kills, rec_living=rec_living, released=released_at_rec, info=info, npid=npid)


def is_fill(x):
    return x is np.ma.masked or (isinstance(x, float) and (math.isnan(x) or abs(x) > 9e36))


def run_case(case):
    if not case.get("twice"):
        return _run_once(case)
    tables = {}
    r1 = _run_once(case, tables=tables)
    r2 = _run_once(case, tables=tables, ref_override=S0 - 86400 * 11 - 5)
    for v in r2["viol"]:
        v["sig"] = "second-run-in-process:" + v["sig"]
        v["msg"] = "second run in the same process, built from the same variable-definition dictionaries with another reference time: " + v["msg"]
    r1["viol"] = r1["viol"] + r2["viol"]
    r1["evals"] = r1.get("evals", 1) + r2.get("evals", 1)
    return r1


def _run_once(case, tables=None, ref_override=None):
    from netCDF4 import Dataset

    pl = plan(case)
    P, layout, numrec = case["period"], case["layout"], case["numrec"]
    sign = -1 if case.get("rev") else 1
    d = util.scratch("c06")
    refsec = dict(default=None, earlier=S0 - 86400 * 3 - 11, later=S0 + 3600, far=world.tosec(FAR))[case["ref"]]
    if ref_override is not None:
        refsec = ref_override
    state = dict(instance_variables=dict(age="float"), default_values=dict(age=0.0))
    pout = {} if tables is None else tables.setdefault("pout", {})
    if case["pvars"] != "none":
        state["particle_variables"] = dict(weight="float")
        pout.setdefault("weight", world.ovar("f8", long_name="w"))  # setdefault: with shared tables the second run re-uses the first run's objects
    else:
        for r in pl["rows"]:
            r.pop("weight")
    if case["pvars"] == "time":
        state["particle_variables"]["release_time"] = "time"
        pout.setdefault("release_time", world.ovar("f8", units="seconds since reference_time"))
    conf = drive.analytic_conf(
        d, S0, S0 + sign * pl["nsteps"] * DT, DT, pl["rows"], reversed_=sign < 0, outvars=("pid", "X", "Y", "Z", "age"), period=P * DT, numrec=numrec,
        layout=layout, field="const", params=dict(a=0.125 / DT, b=-0.0625 / DT, L=100.0), state=state,
        ibm=dict(module=drive.plug("sibm.py"), kills={str(k): v for k, v in pl["kills"].items()}, age=True),
        particle_out=pout or None, reference=refsec,
    )
    if case.get("itime"):
        conf["state"]["instance_variables"]["born"] = "time"
        conf["output"]["instance_variables"]["born"] = world.ovar("f8", units="seconds since reference_time")
    if case.get("packed"):  # X stored packed (16-bit integers, scale 1/64): every position of this scenario is a multiple of 1/64, so the packing is exact
        conf["output"]["instance_variables"]["X"] = world.ovar("i2", scale_factor=0.015625)
    if tables is not None:
        conf["output"]["instance_variables"] = tables.setdefault("inst", conf["output"]["instance_variables"])
    tag = f"hist={case['hist']} {'reversed ' if sign < 0 else ''}{layout} P={P} pvars={case['pvars']} ref={case['ref']} numrec={numrec}{' packed-X' if case.get('packed') else ''}"
    died_before_later_record = any(pl["kills"].get(i * P) for i in range(len(case["hist"]) - 1))
    nontrivial = int(died_before_later_record and any(pl["rec_living"]))
    viols = []

    def bad(sig, msg):
        viols.append(util.viol(sig, f"{tag}: {msg}", case))

    try:
        model = drive.run_model(conf, d, share_tables=tables is not None)
    except drive.RunFailed as e:
        empty_at_end = not pl["rec_living"][-1]
        sig = f"crash:{e.kind}" + (":empty-state-at-file-end" if empty_at_end else "")
        bad(sig, f"run ended abnormally: {e}")
        return util.result(nontrivial=nontrivial, viol=viols, outcomes=["crash"])
    snaps = {s["step"]: s for s in model.force.snapshots}
    R = len(case["hist"])
    nfiles = math.ceil(R / numrec) if numrec else 1
    names = [f"out_{k:03d}.nc" for k in range(nfiles)] if numrec else ["out.nc"]
    try:
        out = world.read_output([d / n for n in names], layout)
    except Exception as e:
        bad("unreadable", repr(e))
        return util.result(nontrivial=nontrivial, viol=viols, outcomes=["unreadable"])
    recs = out["records"]
    if len(recs) != R:
        bad("record-count", f"{len(recs)} records expected {R}")
        return util.result(nontrivial=nontrivial, viol=viols, outcomes=["record-count"])
    exp_ref = min(S0, S0 + sign * pl["nsteps"] * DT) if refsec is None else refsec
    for f in out["files"]:
        if f["units"] != f"seconds since {np.datetime64(int(exp_ref), 's')}":
            bad("time-units", f"{f['name']} time units {f['units']!r} expected reference {world.iso(exp_ref)}")
        if layout == "dense" and f.get("slab_read_faults"):
            v, n, j, what = f["slab_read_faults"][0]
            tail_empty = not pl["rec_living"][-1]
            bad("dense:whole-array-read" + (":trailing-records-without-particles" if tail_empty else ":highest-pids-dead-at-file-end"),
                f"{f['name']}: reading {v}[:] in one piece gives {len(f['slab_read_faults'])} elements that are neither the record's value nor fill "
                f"(first: {v}[{n},{j}] {what}); row-by-row reads are right - the rows/columns were never written and the file's variables are smaller than its dimensions")
        if layout == "sparse" and f["n_instance"] != f["sum_count"]:
            bad("counts-vs-instance-dim", f"{f['name']}: sum(particle_count)={f['sum_count']} instance dimension={f['n_instance']}")
    for i, r in enumerate(recs):
        s = i * P
        if r["time"] != float(S0 + sign * s * DT):
            bad("time-coordinate", f"record {i} decoded time-S0={r['time'] - S0} expected {sign * s * DT}")
        snap = snaps[s]
        alive = snap["vars"]["alive"].astype(bool)
        spid = snap["vars"]["pid"][alive].tolist()
        if spid != pl["rec_living"][i]:
            bad("harness-model-mismatch", f"record {i}: snapshot living pids {spid} but reference model says {pl['rec_living'][i]}")
            continue
        if layout == "sparse":
            got = r["vars"]["pid"].tolist()
            if got != spid:
                bad("record-particles", f"record {i} pids {got} expected {spid}")
                continue
            for v in ("X", "Y", "Z", "age"):
                exp = snap["vars"][v][alive]
                if not np.array_equal(np.asarray(r["vars"][v], float), exp):
                    bad("record-values", f"record {i} {v}={np.asarray(r['vars'][v]).tolist()} expected {exp.tolist()}")
        else:
            for v in ("X", "Y", "Z", "age"):
                row = np.ma.asarray(r["vars"][v])
                if case.get("packed") and v == "X":  # the reader does not mask: the default fill of a 16-bit integer shows as -32767 * scale_factor
                    row = np.ma.masked_values(row, -32767 * 0.015625)
                exp = dict(zip(spid, snap["vars"][v][alive].tolist()))
                for pid in range(max(len(row), pl["released"][i])):
                    val = row[pid] if pid < len(row) else np.ma.masked
                    if pid in exp:
                        if is_fill(val) or float(val) != exp[pid]:
                            bad("dense-values", f"record {i} {v}[{pid}]={val} expected {exp[pid]}")
                            break
                    elif not is_fill(val if val is np.ma.masked else float(val)):
                        bad("dense-fill", f"record {i} {v}[{pid}]={val} expected fill (particle {'dead' if pid < pl['released'][i] else 'not released'})")
                        break
        if case.get("itime"):  # the time-typed instance variable: seconds since the file's reference time, for the living particles of the record
            expb = {pid: float(pl["info"][pid]["t"] + 3600 - exp_ref) for pid in spid}
            rowb = np.ma.asarray(r["vars"].get("born", []))
            gotb = dict(zip(spid, np.asarray(rowb, float).tolist())) if layout == "sparse" else {pid: (float(rowb[pid]) if pid < len(rowb) else None) for pid in spid}
            if gotb != expb:
                bad("record-values:time-typed-instance-variable", f"record {i} born={gotb} expected {expb} (seconds since {world.iso(exp_ref)})")
    if case.get("itime"):
        for f in out["files"]:
            with Dataset(d / f["name"]) as nc_:
                u = getattr(nc_.variables["born"], "units", None) if "born" in nc_.variables else None
            if u != f"seconds since {np.datetime64(int(exp_ref), 's')}":
                bad("time-units:instance-variable", f"{f['name']}: born units {u!r} expected seconds since {world.iso(exp_ref)}")
    # particle variables: index pid for every particle released up to the file's last record
    if case["pvars"] != "none":
        for j, f in enumerate(out["files"]):
            last = min(R, (j + 1) * numrec) - 1 if numrec else R - 1
            n = pl["released"][last]
            for v in pout:
                arr = np.ma.asarray(f["particle"][v])
                if len(arr) < n:
                    sig = "particle-variables:short" + (":highest-pids-dead" if (not pl["rec_living"][last] or pl["rec_living"][last][-1] != n - 1) else "")
                    bad(sig, f"{f['name']} {v} has {len(arr)} values, {n} particles released so far")
                    continue
                for pid in range(len(arr)):
                    if pid not in pl["info"]:
                        continue
                    exp = pl["info"][pid]["weight"] if v == "weight" else float(pl["info"][pid]["t"] - exp_ref)
                    if pid < n and (is_fill(arr[pid]) or float(arr[pid]) != exp):
                        bad("particle-variables:values", f"{f['name']} {v}[{pid}]={arr[pid]} expected {exp}")
                        break
                if v == "release_time":
                    u = f["particle_units"][v]
                    if u != f"seconds since {np.datetime64(int(exp_ref), 's')}":
                        bad("particle-variables:time-units", f"{f['name']} release_time units {u!r}")
    seen, uniq = set(), []
    for x in viols:
        if x["sig"] not in seen:
            seen.add(x["sig"])
            uniq.append(x)
    sizes = [len(x) for x in pl["rec_living"]]
    return util.result(nontrivial=nontrivial, viol=uniq, outcomes=[[min(sizes), max(sizes), int(bool(pl["kills"]))]],
                       states=pl["nsteps"], transitions=pl["nsteps"], sample=case)


def warmup():
    run_case(dict(hist=[[1, "none"]], layout="sparse", period=1, pvars="none", ref="default", numrec=0))
