"""C14 - particles are independent; runs are reproducible and time-shift invariant.

Paired end-to-end Model runs on synthetic ROMS worlds (depth-dependent current, varying bathymetry,
land, deaths by leaving / by IBM placed before an output step, late release, scalar forcing feeding
a state variable). Differential oracle: a particle's trajectory (matched by a release-row tag) is
bit-identical in every variant that contains it.
"""

from __future__ import annotations

import itertools

import numpy as np

from mc import drive, util, world

ID = "C14"
LEVEL = "model_checking"
RULE = (
    "scenario lattice (scheme x layout x death kind x output period x kill step) x variants: every non-empty subset of the 4 release rows, every "
    "permutation of the rows sharing a release time, mult changes of other rows, whole-step time shifts {1,2,3,5,6,7,11}, and a repeat of the base run; "
    "non-trivial = variant pair in which some particle is removed/dies while another particle at a different depth survives to a later record; "
    "lattice points distinct by construction"
)
RULE += " A slice of the lattice is also run time-reversed (scheme x death kind x period)."
RULE += " Beyond the lattice (chosen scenarios, not enumerated): crowds of 400 particles next to the observed ones."
ASSUMPTIONS = ["diffusion off (the statement's condition)", "float64 output so that comparison is bitwise"]

S0 = world.tosec("2020-04-01T00:00:00")
DT = 600
SHIFTS = [1, 2, 3, 5, 6, 7, 11]


def bounds(tier, seed):
    return dict(schemes=["EF", "RK4"] if tier == "quick" else ["EF", "RK2", "RK4"], layouts=["sparse", "dense"], deaths=["none", "ibm", "leave", "both", "settle"],
                periods=[1, 2], kill_steps=[1] if tier == "quick" else [0, 1, 2, 3])


def cases(tier, seed):
    b = bounds(tier, seed)
    out = []
    for sch, lay, death, P, ks in itertools.product(b["schemes"], b["layouts"], b["deaths"], b["periods"], b["kill_steps"]):
        if death in ("none", "leave", "settle") and ks != b["kill_steps"][0]:
            continue
        if tier == "quick" and lay == "dense" and not (death == ["ibm", "both"][seed % 2] and P == 1 + seed % 2):
            continue  # ladim's dense files cost ~0.1 s per record (16 MB HDF5 chunks): quick keeps a seed-chosen slice
        out.append(dict(scheme=sch, layout=lay, death=death, period=P, kill_step=ks))
    # the same differential with the release positions given as longitude/latitude on a curved (polar stereographic) grid
    for sch, death in itertools.product(b["schemes"][:2], ["none", "ibm"]):
        out.append(dict(scheme=sch, layout="sparse", death=death, period=1, kill_step=1, coords="ll"))
    # a longer horizon with crowds (a one-ulp difference in a sampled velocity needs a dozen steps before it shows in a position)
    for sch in b["schemes"]:
        if sch != "EF":
            out.append(dict(scheme=sch, layout="sparse", death="ibm", period=1, kill_step=1, nsteps=16))
    # the same differential in time-reversed runs (release order, clock and forcing hand-over run backwards)
    for sch, death, P in itertools.product(b["schemes"], ["ibm", "leave", "both"], b["periods"]):
        out.append(dict(scheme=sch, layout="sparse", death=death, period=P, kill_step=1, rev=True))
    return out


def make_world():
    imax, jmax, N = 11, 9, 3
    jj, ii = np.meshgrid(np.arange(jmax), np.arange(imax), indexing="ij")
    h = 30.0 + 17.0 * ((ii * 3 + jj * 5) % 4)
    m = np.ones((jmax, imax))
    m[5, 4] = 0  # island
    dx = 800.0 * (1.0 + 0.25 * ((ii + 2 * jj) % 3))  # cell-wise varying metric: a stale metric shows up as soon as a particle changes cell
    from mc.props.c16 import polar_grid

    w = world.World(imax=imax, jmax=jmax, N=N, h=h, mask=m, dx=dx, theta_s=3.0, theta_b=0.4, hc=5.0, lonlat=polar_grid(imax, jmax, 20000.0, 30.0))
    k = np.arange(N)[:, None, None]
    ju, iu = np.meshgrid(np.arange(jmax), np.arange(imax - 1), indexing="ij")
    jv, iv = np.meshgrid(np.arange(jmax - 1), np.arange(imax), indexing="ij")
    # deliberately NOT dyadic and varying along both axes: any change in the order of floating-point operations shows in the last bit
    f0 = dict(u=(0.125 * (k + 1) + 0.03125 * ju[None] + 0.017 * iu[None]) * 1.1, v=(-0.0625 * k + 0.015625 * iv[None] - 0.011 * jv[None]) * 0.9,
              temp=4.0 + ((k * 7 + jj[None] * 3 + ii[None]) % 8) / 4.0)
    f1 = dict(u=f0["u"] * 1.5, v=f0["v"] - 0.03125, temp=f0["temp"] + 1.0)
    return w, f0, f1


W, F0, F1 = make_world()
ROWS = [  # (tag, slot, X, Y, Z)
    (10, 0, 3.3, 3.6, 2.0),   # the victim: first in the file, so its removal shifts everybody else's index
    (11, 0, 3.7, 2.4, 61.0),   # below the deepest rho level of its cell (h = 64 m there): the constant-extension branch of the level lookup
    (12, 0, 3.45, 5.2, 33.0),  # pushed against the island at rho cell (4,5): its move is cancelled step after step
    (13, 2, 5.45, 4.55, 7.0),   # late release, close to the centre of the grid (where the lon/lat solver starts)
]


# thirty more observed particles for the long-horizon cases: the more particles are watched, the sooner a last-bit difference in a velocity rounds into a position
ROWS += [(20 + q, 0, 2.6 + 0.37 * (q % 6) + 0.011 * q, 2.2 + 0.5 * (q // 6) + 0.007 * q, 1.5 + 2.3 * q) for q in range(30)]


NLONG = len(ROWS)
# a fifth release row for the lon/lat scenarios: the position of row 0 again, a few millimetres away (2e-8 degrees of longitude: equal to row 0 when rounded to 6 or 7 decimals)
NEAR = len(ROWS)
ROWS.append((14, 0, 3.3, 3.6, 2.0))


def run_variant(case, rows, shift=0, mults=None, name="v", d=None):
    """rows: list of indices into ROWS in file order. Returns {tag: [per record tuple]} or raises RunFailed."""
    if d is None:
        d = util.scratch("c14")
    else:  # every variant of a case rewrites the files of its predecessor in place (same paths, same sizes): nothing may be remembered about them
        for f_ in d.glob("out*.nc"):
            f_.unlink()
    sign = -1 if case.get("rev") else 1
    NSTEPS = case.get("nsteps", 7)
    t0 = S0 + sign * shift * DT
    # a frame at every step, counted in float hours (first file) and float days (second file): 10-minute frames are not
    # representable, so decoding the time axis must not depend on the whole-step shift of the set-up
    def fr(k):
        c = 1.0 + 0.0625 * k
        return dict(t=t0 + sign * k * DT, u=sign * F0["u"] * c, v=sign * (F0["v"] * c - 0.0078125 * k), temp=F0["temp"] + k)

    ks = list(range(-1, NSTEPS + 2))[::sign]  # calendar order (ladim negates u and v when time runs backwards: the reversed world stores the negated flow)
    cut = 4 if sign > 0 else len(ks) - 4
    W.write_file(d / "f_a.nc", [fr(k) for k in ks[:cut]], time_units="hours since 1970-01-01 00:00:00")
    W.write_file(d / "f_b.nc", [fr(k) for k in ks[cut:]], time_units="days since 1970-01-01 00:00:00")
    rr = []
    for k, ri in enumerate(rows):
        tag, slot, x, y, z = ROWS[ri]
        if case["death"] in ("leave", "both") and tag == 10:
            x, y = 8.5 - 0.3, 3.6  # leaves through the eastern edge of the valid region (x < imax-2.5 = 8.5)
        if case.get("coords") == "ll":
            from mc.props.c16 import bilin

            rr.append(dict(mult=(mults or {}).get(ri, 1), release_time=world.iso(t0 + sign * slot * DT), lon=repr(float(bilin(W.lon, x, y)) + (2e-8 if ri == NEAR else 0.0)), lat=repr(float(bilin(W.lat, x, y))), Z=z, tag=tag))
        else:
            rr.append(dict(mult=(mults or {}).get(ri, 1), release_time=world.iso(t0 + sign * slot * DT), X=x, Y=y, Z=z, tag=tag))
    rr.sort(key=lambda r: sign * world.tosec(r["release_time"]))  # simulation order; stable: keeps the given order within a release time
    ibm = dict(module=drive.plug("sibm.py"), age=True, module_state=True)  # module-level state of a plug-in given by path starts afresh in every run
    if case["death"] in ("ibm", "both"):
        ibm["kill_tags"] = {str(case["kill_step"]): [10 if case["death"] == "ibm" else 11]}
    if case["death"] == "settle":  # the first particle of the file settles (alive, inactive): the others, stored after it at other depths, go on
        ibm["settle_tags"] = {str(case["kill_step"]): [10]}
    state = dict(instance_variables=dict(tag="int", temp="float", age="float"), default_values=dict(temp=0.0, age=0.0))
    conf = drive.roms_conf(d, d / "f_*.nc", t0, t0 + sign * NSTEPS * DT, DT, rr, reversed_=sign < 0, outvars=("pid", "X", "Y", "Z", "temp", "age", "tag"),
                           period=case["period"] * DT, layout=case["layout"], tracker=dict(advection=case["scheme"]), state=state, ibm=ibm,
                           extra_forcing=["temp"])
    conf["output"]["instance_variables"]["tag"] = world.ovar("i4")
    drive.run_model(conf, d)
    out = world.read_output([d / "out.nc"], case["layout"])
    traj = {}
    raw = []
    for ri, rec in enumerate(out["records"]):
        v = rec["vars"]
        raw.append((rec["time"] - t0, {k: np.asarray(a).tobytes() for k, a in v.items()}))
        tags = np.asarray(v["tag"])
        for j in range(len(tags)):
            tg = int(tags[j])
            if case["layout"] == "dense" and (tg < 0 or tg > 1000):
                continue  # fill value
            vals = tuple(float(v[name_][j]) for name_ in ("X", "Y", "Z", "temp", "age"))
            if case["layout"] == "dense" and any(abs(x) > 9e36 or x != x for x in vals):
                continue
            traj.setdefault(tg, {}).setdefault(ri, set()).add(vals)
    return traj, raw


def compare(base, var, tags, what, case, extra):
    """Trajectories of `tags` must be identical in base and variant."""
    for tg in tags:
        b, v = base.get(tg, {}), var.get(tg, {})
        if b != v:
            recs = sorted(set(b) | set(v))
            first = next(r for r in recs if b.get(r) != v.get(r))
            return util.viol(f"crosstalk:{what}", f"{case} {what} {extra}: trajectory of row tag {tg} differs at record {first}: {sorted(b.get(first, []))} vs {sorted(v.get(first, []))}",
                             dict(case, only=[what, extra]))
    return None


def variants(case):
    if case.get("coords") == "ll":  # with the near-duplicate of row 0: every variant of the plain lattice with that row appended, and the ones that separate the pair
        plain = dict(case, coords=None)
        for what, rows, kw in variants(plain):
            yield what, rows + [NEAR], dict(kw, rows=kw["rows"] + [NEAR])
        yield "subset", [1, 2, 3, NEAR], dict(rows=[1, 2, 3, NEAR])
        yield "subset", [NEAR], dict(rows=[NEAR])
        yield "permutation", [NEAR, 1, 2, 0, 3], dict(rows=[NEAR, 1, 2, 0, 3])
        return
    idx = [0, 1, 2, 3]
    if case.get("nsteps"):  # long horizon: the crowd variants only, 34 observed particles
        idx = list(range(NLONG))
        for m in ({2: 400}, {1: 150, 3: 200}, {0: 600}, {3: 140}):
            yield "mult", idx, dict(rows=idx, mults=m)
        yield "subset", idx[1:20], dict(rows=idx[1:20])
        yield "subset", idx[::3], dict(rows=idx[::3])
        yield "repeat", idx, dict(rows=idx)
        return
    for r in range(1, 5):
        for sub in itertools.combinations(idx, r):
            if len(sub) < 4:
                yield "subset", list(sub), dict(rows=list(sub))
    for perm in itertools.permutations([0, 1, 2]):
        if list(perm) != [0, 1, 2]:
            yield "permutation", list(perm) + [3], dict(rows=list(perm) + [3])
    for ri in idx:
        yield "mult", idx, dict(rows=idx, mults={ri: 2})
    yield "mult", idx, dict(rows=idx, mults={0: 3, 3: 2})
    if case["layout"] == "sparse":  # a crowd next to the observed particles: more particles than there are nodes in a forcing field
        yield "mult", idx, dict(rows=idx, mults={2: 400})
        yield "mult", idx, dict(rows=idx, mults={1: 150, 3: 200})
    for k in SHIFTS:
        yield "shift", idx, dict(rows=idx, shift=k)
    yield "repeat", idx, dict(rows=idx)


def run_case(case):
    viols, n, nt = [], 0, 0
    outcomes = set()
    try:
        dshared = util.scratch("c14")
        base, base_raw = run_variant(case, list(range(NLONG)) if case.get("nsteps") else [0, 1, 2, 3] + ([NEAR] if case.get("coords") == "ll" else []), d=dshared)
    except drive.RunFailed as e:
        return util.result(viol=[util.viol("crash:base", f"{case}: {e}", case)], nontrivial=1)
    n += 1
    nrec = len(base_raw)
    victim = 10 if case["death"] in ("ibm", "leave") else 11 if case["death"] == "both" else None
    died_early = victim is not None and len(base.get(victim, {})) < nrec and len(base.get(12, {})) == nrec
    only = case.get("only")
    for what, rows, kw in variants(case):
        if only and [what, str(kw)] != [only[0], only[1]]:
            continue
        try:
            var, raw = run_variant(case, kw["rows"], shift=kw.get("shift", 0), mults={int(k): v for k, v in kw.get("mults", {}).items()}, d=dshared)
        except drive.RunFailed as e:
            viols.append(util.viol(f"crash:{what}", f"{case} {what} {kw}: {e}", dict(case, only=[what, str(kw)])))
            continue
        n += 1
        tags = [ROWS[i][0] for i in rows]
        v = compare(base, var, tags, what, case, str(kw))
        if what == "repeat" and raw != base_raw and v is None:
            v = util.viol("not-reproducible", f"{case}: a repeated run wrote different bytes", dict(case, only=[what, str(kw)]))
        if what == "shift" and v is None and [r[0] for r in raw] != [r[0] for r in base_raw]:
            v = util.viol("crosstalk:shift", f"{case} shift {kw}: record times relative to start differ", dict(case, only=[what, str(kw)]))
        if v is not None and not any(x["sig"] == v["sig"] for x in viols):
            viols.append(v)
        if what in ("subset", "permutation", "mult") and (died_early or what == "subset"):
            nt += 1
        outcomes.add((what, died_early))
    util.cleanup_scratch(keep_root=True)
    NSTEPS = case.get("nsteps", 7)
    return util.result(evals=n, nontrivial=nt, viol=viols, outcomes=[list(o) for o in outcomes], states=n * NSTEPS, transitions=n * NSTEPS,
                       sample=dict(case, rows=[list(r) for r in ROWS], victim_died_before_end=bool(died_early), records=nrec))


def warmup():
    run_variant(dict(scheme="RK4", layout="sparse", death="ibm", period=2, kill_step=1), [0, 1, 2, 3])
