"""Regenerates /verif/MANIFEST.json from the table below (python3 -m mc.manifest)."""

import json
from pathlib import Path

VERIF = Path(__file__).resolve().parents[1]

TECH = "bounded exhaustive exploration of the implementation against a reference model (explicit-state, hand-written explorer)"

# id -> (category, technique, level text, level note, design ref)
CHECKS = {
    "C05": (
        "model_checking",
        "explicit-state history search over the real State: every operation sequence up to a depth replayed from scratch, deeper with cloning and pruning on canonical state; reference model compared after every operation",
        "Every sequence over a 19-operation alphabet (appends scalar/array/broadcast incl. length-one arrays/empty/with defaults, refused appends, kills, compactify, item assignment incl. aliasing, "
        "in-place updates, particle-variable updates) up to depth 4/5 is replayed from scratch on a fresh State (depth 7/9 over the 5-operation core), deeper "
        "(5/7, core 9/11) incrementally with pruning on (canonical state, remaining depth), and in a reduced alphabet through the real sparse Output.write and "
        "a documented-format reader; after every operation pids, instance arrays, particle arrays and npid equal a list-based reference model.",
        "Operation arguments are functions of the current state (needed for sound pruning); dtype zoo int/float/bool/M8[s]; numpy trusted.",
        "DESIGN.md §2 C05",
    ),
    "C13": (
        "model_checking",
        "exhaustive lattice enumeration of the real TimeKeeper/normalize_period against integer-second arithmetic and a reference grammar",
        "Every (start, duration, dt, direction, reference) on a one-second lattice: Nsteps, step<->time conversions at every step incl. negative, "
        "the running clock after every update() and after reset(), times given as ISO string / numpy datetime64 / datetime instance, CF values/units; every spelling of each duration in a bounded set and every string over an "
        "11-letter alphabet up to length 4/5 decided by a hand-written grammar. Exhaustive on the lattice, silent off it.",
        "numpy datetime64 arithmetic trusted; times on a one-second lattice.",
        "DESIGN.md §2 C13",
    ),
    "C07": (
        "model_checking",
        "exhaustive configuration lattice (Nsteps x period x numrec x layout x direction x ...) through the real main(), schedule oracle + split-vs-unsplit differential",
        "Every (Nsteps<=9/13, period, numrec, layout, particle variables, direction, duration exact or not, first release at or after the start) is a complete "
        "run of main(), with six file-name prototypes in one slice of the lattice; record times, file names, records per file, readability, particle "
        "variables and the concatenation differential are compared with integer arithmetic.",
        "Analytic grid/forcing plug-ins (the property does not anchor ROMS); output period a multiple of dt.",
        "DESIGN.md §2 C07",
    ),
    "C06": (
        "model_checking",
        "exhaustive enumeration of release/death histories through the assembled Model; state snapshots vs records read by a documented-format reader",
        "Every history of releases {0,1,2} and deaths {none, lowest, highest, all} per record interval up to 3/4 records, both layouts, periods 1-2, "
        "particle variables / reference time / numrec round-robin (full cross in thorough up to 3 records): each record equals the snapshot taken "
        "right after forcing.update(), counts sum to the instance dimension, time coordinate and units decode to the model time, particle variables "
        "cover every particle released so far, dense fill before release / after death.",
        "Analytic grid/forcing plug-ins; NETCDF4 only.",
        "DESIGN.md §2 C06",
    ),
    "C04": (
        "model_checking",
        "exhaustive enumeration of release tables up to 3 rows x modes on the real ParticleReleaser/State/TimeKeeper against a reference schedule",
        "Every table with <=2 (3 in slices/thorough) rows, times any multiset of step slots -1..Nsteps+1, mult 0-2, X/Y or lon/lat, header or names, "
        "with/without mult column, discrete / continuous (f=1,2 steps), forward/reversed: after every update() the new particles (count, order, "
        "position, int/float/time extra columns) equal the reference schedule.",
        "Times on the step (and tick) grid as the quantifier demands; affine fake grid for ll2xy; pandas trusted for parsing.",
        "DESIGN.md §2 C04",
    ),
    "C12": (
        "model_checking",
        "exhaustive parameter lattice on the real s_stretch/sdepth/z2s and on Grid objects; invariant oracle + independent ROMS formulas",
        "Every (N=1..60, Vstretching, theta_s, theta_b, Vtransform, hc, h) on the lattice and every particle depth of a depth family: strict "
        "monotonicity inside [-h,0], w/rho interleaving, Cs from -1 to 0, lookup pair in range with weight in [0,1] reproducing the clamped depth; "
        "Grid built from a file and from Vinfo on variable bathymetry.",
        "Parameters on the lattice; zeta = 0.",
        "DESIGN.md §2 C12",
    ),
    "C02": (
        "model_checking",
        "exhaustive world lattice x all legal subgrids x position/depth lattice on the real Grid+Forcing against a reference interpolator on the global arrays",
        "Every world (bathymetry, stretching, mask, storage, field) x every legal subgrid x every position of a 0.25 lattice of the valid region x "
        "depth family: velocity (variables, velocity(), fractional step) and scalar equal the statement-level reference interpolation of the global "
        "arrays; plus exactness on linear fields and the convexity bound.",
        "Steady fields; dyadic data so that 1e-12 is exact; both neighbours admitted at exact cell edges / level depths.",
        "DESIGN.md §2 C02",
    ),
    "C03": (
        "model_checking",
        "exhaustive enumeration of frame layouts x file compositions x direction on the real Forcing stepped like Model.update; tagged-frame reference",
        "Every subset of the step slots covering the window (2..4/6 frames, Nsteps<=3/5), every composition into files, forward and reversed, with and "
        "without a scalar, fractional steps 0, 1/2, 1: velocity = lerp of the bracketing frame tags, scalar = latest frame reached.",
        "Frames on the model time grid; a global sign under reversal is factored out (C10 decides it).",
        "DESIGN.md §2 C03",
    ),
    "C01": (
        "model_checking",
        "exhaustive lattice of scheme x field x metric x step size on the real Tracker with a stage-recording forcing: trace conformance with the Butcher tableau; convergence corroboration; ROMS end-to-end differential",
        "Every (scheme, field of an 8-member family, metric of 5 incl. dx!=dy and cell-wise, displacement, dt) x 25 start positions x steps: every recorded "
        "stage query (position, fractional time) and the final displacement equal the scheme's tableau (RK2: any member of the second-order family); "
        "observed orders vs closed-form flow maps for the Tracker and for analytical.get_velocity1/2/4; the real ROMS Grid/Forcing on exactly "
        "interpolable fields against a reference stepper.",
        "Order follows from tableau conformance by the classical theorem; corroborated at n=8,16,32 only; interior positions.",
        "DESIGN.md §2 C01",
    ),
    "C14": (
        "model_checking",
        "exhaustive variant enumeration (all row subsets, permutations, mult changes, time shifts, repeat) per scenario of a scenario lattice; bitwise trajectory differential on paired Model runs",
        "For each scenario (scheme x layout x death kind x period x kill step) on a ROMS world with depth-dependent current, varying bathymetry, land, "
        "scalar forcing and IBM: the trajectory and variables of every particle (matched by a release-row tag) are bit-identical in every variant that contains it.",
        "Diffusion off; float64 output; 4-row release table; one world.",
        "DESIGN.md §2 C14",
    ),
    "C17": (
        "model_checking",
        "exhaustive boundary scenario lattice run twice: compiled kernels under NUMBA_BOUNDSCHECK=1, and python kernels on index-checking ndarray proxies; plus kernel-level 0.01 position lattice",
        "Every (flow direction, speed up to 3 cells/step, scheme, subgrid, vertical mode, diffusion kick) with particles within 0.6 cell of every edge and "
        "corner of the valid region at 4 depths; no subscript of trilinear / z2s_kernel leaves [0, shape) on any axis (negative, wrapping indices included).",
        "numba code generation trusted once indices are in range; kernels rebound by name in the harness process.",
        "DESIGN.md §2 C17",
    ),
    "C16": (
        "model_checking",
        "exhaustive lattice: conformal grids x subgrids x position lattice for xy2ll/ll2xy; all 2^9 masks x position lattice x substitute values for sample2D; Model runs for release/output lon/lat",
        "Round trip on every position of a 0.37 lattice of the valid region of polar-stereographic grids (3 resolutions x 4 rotations x 2 sizes x 10 subgrids) "
        "to the solver's own tolerance; released-by-lon/lat start positions and output lon/lat equal the bilinear interpolation of the global arrays; "
        "sample2D equals a reference sampler on every mask of a 3x3 grid, inside/outside positions, undef and outside values incl. 0.0.",
        "Spherical polar-stereographic grids up to 40x30; solver tolerance 1e-7 deg^2 as the statement allows.",
        "DESIGN.md §2 C16",
    ),
    "C09": (
        "model_checking",
        "exhaustive lattice of masks x flow directions x speeds x schemes on the real ROMS Grid + Tracker with exactly known targets (trichotomy oracle); deviation-bounded scripted diffusion; Model-level invariants",
        "For every (mask of 5, direction of 8, speed of 3, scheme, subgrid) with particles on every sea-cell centre and offsets of the valid region and one "
        "inactive particle, 4 steps: each particle is dead-and-unmoved if its exactly known target leaves the valid region, unmoved if the target cell is land, "
        "else at the target; alive flags monotone; diffusion scripts with 0, 1 (2 in thorough) deviations from {+-0.7, +-3 cells}; assembled Model on ROMS "
        "forcing: living particles finite, inside, at sea after every update, pids that left the output never return.",
        "Valid region taken from the documented +-1/2 margin; positions off the half-cell lines; an inactive particle whose hypothetical move leaves the grid may be marked dead.",
        "DESIGN.md §2 C09",
    ),
    "C11": (
        "model_checking",
        "exhaustive parameter lattice with the random generator replaced by a scripted provenance-tagged source: exact algebraic displacement identity per particle, direction and step",
        "For every (D, Dz, dt, dx/dy, particles, steps, advection) on the lattice every displacement equals sqrt(2 D dt)/dx (sqrt(2 Dz dt) in depth) times a value "
        "drawn in that very step, no drawn value drives two components, nothing else is added, zero coefficients give bit-identical positions. Mean, variance and "
        "independence then follow from numpy's Generator.normal being i.i.d. N(0,1).",
        "Distributional claim reduced to an algebraic one; numpy's generator is the trusted base; no sample statistics are computed (that would be sampling).",
        "DESIGN.md §2 C11",
    ),
    "C15": (
        "model_checking",
        "exhaustive lattice of bottom depths x start depths x vertical displacements (diffusion / w / both) x schemes x cell-crossing flows on the real Tracker with scripted draws",
        "Every (h, neighbour deeper/shallower, start depth, displacement up to 0.99 h from scripted diffusion and/or w, scheme, flow carrying the particle into "
        "the neighbour cell or not) over 2 steps: 0 <= Z <= h(start cell) and the exact reflection value; both switches off: Z bit-identical; slice on the real ROMS Grid bathymetry.",
        "|displacement| < h as the statement requires.",
        "DESIGN.md §2 C15",
    ),
    "C10": (
        "model_checking",
        "exhaustive lattice of frame layouts x file compositions x release tables x schemes: paired Model runs (reversed vs time-mirrored sign-flipped forward), record-by-record differential",
        "For every (run length, frame layout incl. spacing = dt and irregular spacing, composition into files, release table discrete/continuous with 2-3 release "
        "times, scheme, output period): the reversed run and the forward run in the mirrored, sign-flipped flow give the same pids at the same positions "
        "(1e-12) in every record; the reversed clock and time coordinate read S - k*dt; each release appears at its stated time; a slice repeats the "
        "differential with frames, release times and output period off the step grid.",
        "Scalar forcing under reversal excluded; diffusion off.",
        "DESIGN.md §2 C10",
    ),
    "C08": (
        "model_checking",
        "scenario lattice x EVERY file boundary as crash/restart point: uninterrupted split run vs each warm-started run, compared record by record by decoded absolute time",
        "For every scenario (scheme, forward or time-reversed run, discrete/continuous release, deaths by IBM age limit / leaving the grid / both, scalar forcing, numrec 1-3, duration multiple "
        "or not of the period, particle variables on/off) and every completed file of the split run: the run warm-started from that file reproduces every later "
        "record (pids, positions, age, forcing-derived temp, tags, particle variables, newly released particles, file names). One genuine defect is listed as a known finding.",
        "Restart configured as documented; float64 output; the extra warm-run record at exactly stop is not compared.",
        "DESIGN.md §2 C08",
    ),
    "C18": (
        "model_checking",
        "exhaustive lattice of simulations expressible in the v1 vocabulary, each rendered by three independent renderers (YAML v2, TOML v2, YAML v1): three-way differential on configure() and on the output files",
        "Every point of (release mode, extra column kind, IBM variable, diffusion, grid section explicit/omitted plain/omitted wildcard with * or a character class) crossed with a "
        "round-robin (full in thorough) of (subgrid, advection, optional sections omitted/empty/blank, reference time, dt spelling): the three spellings give the same "
        "normalised configuration and bit-identical records and particle variables; runs with diffusion use one scripted random source.",
        "v1 vocabulary as in the v1 examples; TOML written by a minimal renderer.",
        "DESIGN.md §2 C18",
    ),
    "C19": (
        "model_checking",
        "exhaustive lattice of run length x period x cold/warm x plug-in spelling through main() with all eight modules wrapped by recording plug-ins; call log vs reference protocol automaton + snapshot side conditions",
        "For every (Nsteps 1-6, period 1-3, cold/warm start, ibm/forcing/grid/output given by path or by name incl. the working-directory-file-vs-sys.path "
        "precedence case, IBM kill step): the recorded call sequence equals the word (T R F O? K I)^n C* of the reference automaton (warm: R F K I first); "
        "forcing sees the newly released particles, the record equals the state after forcing with the scalar valid at the record's own position and time, "
        "the IBM sees the moved particles once per step, IBM kills vanish from the next record on, the module that runs is the one given.",
        "Wrappers are thin subclasses delegating every call.",
        "DESIGN.md §2 C19",
    ),
    "C20": (
        "fault_enumeration",
        "exhaustive single-fault injection: every fault of the list x every base scenario through main(), each base first run fault-free",
        "8 base scenarios (forward/reversed x single/multi-file forcing x discrete/continuous release) x 66 single faults through main(), and the same faults "
        "through `python -m ladim` (one base in quick, all in thorough) reading the process exit status: the run must end with an error, no output record "
        "may exist and the recording IBM must never have been called.",
        "One fault at a time; the error kind is recorded, not prescribed.",
        "DESIGN.md §2 C20",
    ),
}

# chosen (not enumerated) scenarios beyond each lattice, added because seeded changes needed scale, horizon or an exact boundary value
BEYOND = {
    "C19": "plug-in files in the working directory named like ladim's own modules (ibm.py, ROMS.py)",
    "C13": "every dt of 1..240 s x steps -64..64; period verdicts under every ordered pair of calls in a fresh interpreter",
    "C11": "a grid reporting its spacing as integers; the real ROMS metric with pm != pn; another grid file under the same path first",
    "C01": "the real ROMS grid with an anisotropic metric (pm != pn)",
    "C02": "a grid 4200 cells wide with positions off the dyadic lattice; settled particles in the state; a same-shaped rectangle of the same file built first; storage variants: scale_factor only, one velocity component packed and one float, packed velocity with an offset, NaN on land faces",
    "C03": "intervals of 75-150 steps between frames, also with single-precision files; the step at the stop time (executed by warm-started runs)",
    "C04": "tables of 65 000 rows and 3300 continuous ticks; release_time of the new particles; every table is a real file at one path that is rewritten for each table",
    "C05": "crowd histories (120-1200 particles, one or two dead), also through Output.write",
    "C06": "crowds of 120-700 particles; a reference time in another century; every dense variable also read in one piece with sentinel-initialised buffers; time-reversed runs; X packed as 16-bit integers; a second run in one process from the same variable-definition tables",
    "C07": "file-name prototypes whose counter has or gets five digits; runs in which everything is dead and nothing is left to release; numrec: 0 written out",
    "C08": "a cohort that dies out completely before a late release; the known finding is recognised only by the exact outcome it explains; a decoy experiment and restart first under the same file names",
    "C09": "a 260x300 grid with land and open boundary where flat cell numbers exceed 2**15 and 2**16; draw-structure-agnostic diffusion oracle (assignment search); a quarter of the particles released inactive through an `active` column",
    "C10": "vertical advection (w mirrored, depth compared) and a reference time in another century in one slice; rows sharing a release time; a model of the opposite direction set up first on the same files",
    "C12": "one lookup call with 1100 particles in scrambled order against per-column calls; theta_s down to 1e-8; explicit hc = 0; every Grid kept in use while later ones are built",
    "C14": "crowds of 400 particles next to the observed ones; a time-reversed slice; 34 observed particles over 16 steps; near-duplicate lon/lat rows; a settling particle; a plug-in with module-level state",
    "C15": "a 200x220 grid; one random value per step so that the oracle is independent of how the tracker draws",
    "C16": "grids 1600 cells wide / 1500 cells tall; the sampler on integer and single-precision fields; the same conversions through ladim.ROMS2; a 0..360 grid in the Model runs",
    "C17": "2600 particles released in one step; Runge-Kutta stages exactly on a grid limit; signature-agnostic kernel proxies with write checks; a second model set up on a smaller rectangle before the first is stepped",
    "C18": "a v1 period of 30 h, a reference time at the epoch, an IBM option with value 0.0; an IBM without variables; lon/lat columns next to X, Y; a plug-in with module-level state",
    "C20": "a record of 800 days with a missing last step; a packed time coordinate; a plug-in grid without ll2xy (each with a control run); blank position values; zero/negative dt spellings; a mandatory section missing from a dictionary handed to Model",
}

PENDING_REASON = "check not built yet (work in progress, see DESIGN.md §11 build order)"
NOT_APPLICABLE: dict[str, str] = {}


def main() -> None:
    props = [json.loads(l) for l in (VERIF / "properties.jsonl").read_text().splitlines() if l.strip()]
    checks, na = [], []
    for p in props:
        pid = p["id"]
        if pid in CHECKS:
            cat, tech, text, note, ref = CHECKS[pid]
            checks.append(
                dict(
                    property_id=pid,
                    quick_cmd=f"./check {pid} --tier quick",
                    thorough_cmd=f"./check {pid} --tier thorough",
                    evidence_file=f"/verif/evidence/{pid}.json",
                    replay_cmd_template=f"./check {pid} --replay {{path}}",
                    engine="mc-explorer",
                    level_claimed=dict(category=cat, text=text + (f" Beyond the lattice (chosen scenarios): {BEYOND[pid]}." if pid in BEYOND else ""), design_ref=ref),
                    level_note=note,
                    technique=tech,
                )
            )
        else:
            na.append(dict(property_id=pid, reason=NOT_APPLICABLE.get(pid, PENDING_REASON)))
    man = dict(
        version=1,
        setup_cmd="./setup.sh",
        hooks=dict(
            guard="LADIM2_VERIF",
            enable="no source hooks are needed: checks import ladim from /repo's working tree (editable install in /venv) and use ladim's own plug-in mechanism",
            baseline_off_cmd="cd /repo && /venv/bin/python -m pytest -ra -q -p no:cacheprovider --timeout=900 --continue-on-collection-errors",
            source_commits=[],
            add_only=True,
        ),
        engines=[
            dict(
                name="mc-explorer",
                path="/verif/mc/runner.py",
                serves_properties=sorted(CHECKS),
                kind_free_text="hand-written explicit-state / bounded-exhaustive explorer in Python driving the real ladim objects; "
                "16 forked workers; confirm-by-replay in a fresh interpreter; reference models in mc/props and mc/ref",
            )
        ],
        checks=checks,
        not_applicable=na,
        notes="See DESIGN.md. Known findings: known_findings.json. Seeded property-breaking changes: seeded/ (DESIGN 14). Property-preserving changes used as a "
        "false-alarm test: benign/ (DESIGN 14b). The environment variables LADIM2_VERIF_REPO / LADIM2_VERIF_OUT are read by the runner only for that tooling "
        "(scratch worktrees); the registered commands never set them and always check /repo's working tree.",
    )
    (VERIF / "MANIFEST.json").write_text(json.dumps(man, indent=1) + "\n")


if __name__ == "__main__":
    main()
