"""Regenerates /verif/MANIFEST.json from the table below (python3 -m mc.manifest)."""

import json
from pathlib import Path

VERIF = Path(__file__).resolve().parents[1]

TECH = "bounded exhaustive exploration of the implementation against a reference model (explicit-state, hand-written explorer)"

# id -> (category, technique, level text, level note, design ref)
CHECKS = {
    "C05": (
        "model_checking",
        "explicit-state history search over the real State (all operation sequences up to a depth, pruned on canonical state) + reference model",
        "Every sequence of append/kill/compactify/assignment operations up to the depth bound is executed on the real State "
        "(and, in a reduced alphabet, through the real sparse Output.write and a documented-format reader); after every "
        "operation pids, instance arrays, particle arrays and npid equal a list-based reference model. Exhaustive below the "
        "bound, silent about longer histories.",
        "Operation arguments are functions of the current state (needed for sound pruning); dtype zoo int/float/bool/M8[s]; numpy trusted.",
        "DESIGN.md §2 C05",
    ),
}

PENDING_REASON = "check not built yet (work in progress, see DESIGN.md §11 build order)"
NOT_APPLICABLE: dict[str, str] = {}


def main() -> None:
    props = [json.loads(l) for l in (VERIF / "properties.jsonl").read_text().splitlines() if l.strip()]
    checks, na = [], []
    for p in props:
        pid = p["id"]
        if pid in CHECKS:
            cat, tech, text, note, ref = CHECKS[pid]
            checks.append(
                dict(
                    property_id=pid,
                    quick_cmd=f"./check {pid} --tier quick",
                    thorough_cmd=f"./check {pid} --tier thorough",
                    evidence_file=f"/verif/evidence/{pid}.json",
                    replay_cmd_template=f"./check {pid} --replay {{path}}",
                    engine="mc-explorer",
                    level_claimed=dict(category=cat, text=text, design_ref=ref),
                    level_note=note,
                    technique=tech,
                )
            )
        else:
            na.append(dict(property_id=pid, reason=NOT_APPLICABLE.get(pid, PENDING_REASON)))
    man = dict(
        version=1,
        setup_cmd="./setup.sh",
        hooks=dict(
            guard="LADIM2_VERIF",
            enable="no source hooks are needed: checks import ladim from /repo's working tree (editable install in /venv) and use ladim's own plug-in mechanism",
            baseline_off_cmd="cd /repo && /venv/bin/python -m pytest -ra -q -p no:cacheprovider --timeout=900 --continue-on-collection-errors",
            source_commits=[],
            add_only=True,
        ),
        engines=[
            dict(
                name="mc-explorer",
                path="/verif/mc/runner.py",
                serves_properties=sorted(CHECKS),
                kind_free_text="hand-written explicit-state / bounded-exhaustive explorer in Python driving the real ladim objects; "
                "16 forked workers; confirm-by-replay in a fresh interpreter; reference models in mc/props and mc/ref",
            )
        ],
        checks=checks,
        not_applicable=na,
        notes="See DESIGN.md. Known findings: known_findings.json. Seeded property-breaking changes: seeded/.",
    )
    (VERIF / "MANIFEST.json").write_text(json.dumps(man, indent=1) + "\n")


if __name__ == "__main__":
    main()
