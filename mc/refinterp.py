"""Reference C-grid interpolation written from the property statement (C02), in *global* grid
coordinates on the *global* arrays, deliberately slow and independent of ladim's kernels.

u-point (i, j) sits at x = i + 1/2, y = j   (ROMS u[:, j, i]);
v-point (i, j) sits at x = i,       y = j + 1/2.
A face velocity is zero when either adjacent rho cell is land.
"""

from __future__ import annotations

import math

import numpy as np


def level_pair(zr_col, z):
    """(k_lo, k_hi, a): value = a*F[k_lo] + (1-a)*F[k_hi]; constant outside the level range."""
    n = len(zr_col)
    d = -z
    if d <= zr_col[0]:
        return 0, 0, 1.0
    if d >= zr_col[n - 1]:
        return n - 1, n - 1, 1.0
    k = 1
    while zr_col[k] < d:
        k += 1
    a = (zr_col[k] - d) / (zr_col[k] - zr_col[k - 1])
    return k - 1, k, a


def own_cells(x, y):
    """Admissible own cells: nearest rho point, both neighbours at an exact half."""
    xs = {int(math.floor(x + 0.5)), int(math.ceil(x - 0.5))}
    ys = {int(math.floor(y + 0.5)), int(math.ceil(y - 0.5))}
    return [(i, j) for i in sorted(xs) for j in sorted(ys)]


def uv_at(world, U, V, x, y, z, cell):
    """Reference (u, v) for one position with the given own cell. U[N,jmax,imax-1], V[N,jmax-1,imax]."""
    ic, jc = cell
    klo, khi, a = level_pair(world.z_r[:, jc, ic], z)
    M = world.mask

    def ucol(i, j):
        m = M[j, i] * M[j, i + 1]
        return m * (a * U[klo, j, i] + (1 - a) * U[khi, j, i])

    def vcol(i, j):
        m = M[j, i] * M[j + 1, i]
        return m * (a * V[klo, j, i] + (1 - a) * V[khi, j, i])

    xs = x - 0.5
    i0, j0 = int(math.floor(xs)), int(math.floor(y))
    p, q = xs - i0, y - j0
    u = (1 - p) * (1 - q) * ucol(i0, j0) + p * (1 - q) * ucol(i0 + 1, j0) + (1 - p) * q * ucol(i0, j0 + 1) + p * q * ucol(i0 + 1, j0 + 1)
    ys = y - 0.5
    i0, j0 = int(math.floor(x)), int(math.floor(ys))
    p, q = x - i0, ys - j0
    v = (1 - p) * (1 - q) * vcol(i0, j0) + p * (1 - q) * vcol(i0 + 1, j0) + (1 - p) * q * vcol(i0, j0 + 1) + p * q * vcol(i0 + 1, j0 + 1)
    return u, v


def uv_nodes(world, U, V, x, y, cell, z):
    """The (masked) node values entering the interpolation: used for the convexity bound."""
    ic, jc = cell
    klo, khi, _ = level_pair(world.z_r[:, jc, ic], z)
    M = world.mask
    xs, ys = x - 0.5, y - 0.5
    iu, ju = int(math.floor(xs)), int(math.floor(y))
    iv, jv = int(math.floor(x)), int(math.floor(ys))
    un = [M[j, i] * M[j, i + 1] * U[k, j, i] for k in (klo, khi) for j in (ju, ju + 1) for i in (iu, iu + 1)]
    vn = [M[j, i] * M[j + 1, i] * V[k, j, i] for k in (klo, khi) for j in (jv, jv + 1) for i in (iv, iv + 1)]
    return un, vn


def scalar_candidates(world, F, x, y, z):
    """Admissible scalar values: own cell's value at one of the two bracketing levels."""
    out = []
    n = F.shape[0]
    for ic, jc in own_cells(x, y):
        klo, khi, _ = level_pair(world.z_r[:, jc, ic], z)
        if klo == khi and n > 1:  # outside the level range the pair is the outermost two levels
            klo, khi = (0, 1) if klo == 0 else (n - 2, n - 1)
        ks = {klo, khi}
        # exactly at a level depth both adjacent pairs bracket the particle (rounding decides in ladim)
        zc = world.z_r[:, jc, ic]
        for k in range(n):
            if abs(zc[k] + z) <= 1e-9 * max(1.0, abs(z)):
                ks |= {max(k - 1, 0), k, min(k + 1, n - 1)}
        out += [F[k, jc, ic] for k in sorted(ks)]
    return out


def uv_candidates(world, U, V, x, y, z):
    return [uv_at(world, U, V, x, y, z, c) for c in own_cells(x, y)]
