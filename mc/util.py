"""Shared helpers: logging silence, scratch directories, violation records."""

from __future__ import annotations

import logging
import os
import shutil
import tempfile
import warnings
from pathlib import Path


class HarnessError(Exception):
    """A defect of the verification machinery itself (never a verdict)."""


def silence() -> None:
    root = logging.getLogger()
    if not root.handlers:
        root.addHandler(logging.NullHandler())
    root.setLevel(logging.CRITICAL + 10)
    logging.disable(logging.CRITICAL)
    warnings.filterwarnings("ignore")
    try:  # netcdf-c's default 64 MB per-file chunk cache makes every tiny file cost ~10 ms of page zeroing
        import netCDF4

        netCDF4.set_chunk_cache(65536, 101, 0.75)
    except Exception:
        pass


_ROOT: Path | None = None
_ROOT_PID = None


def scratch_root() -> Path:
    global _ROOT, _ROOT_PID
    if _ROOT is None or _ROOT_PID != os.getpid():
        base = "/dev/shm" if os.path.isdir("/dev/shm") and os.access("/dev/shm", os.W_OK) else None
        run_dir = os.environ.get("LADIM2_VERIF_SCRATCH")  # set by the runner: one directory per run, removed when the run ends
        if run_dir and os.path.isdir(run_dir):
            base = run_dir
        _ROOT = Path(tempfile.mkdtemp(prefix="ladim_verif_", dir=base))
        _ROOT_PID = os.getpid()
    return _ROOT


def scratch(tag: str = "c") -> Path:
    return Path(tempfile.mkdtemp(prefix=tag + "_", dir=scratch_root()))


def cleanup_scratch(keep_root: bool = False) -> None:
    global _ROOT
    if _ROOT is not None and _ROOT_PID == os.getpid() and _ROOT.exists():
        if keep_root:
            for p in _ROOT.iterdir():
                shutil.rmtree(p, ignore_errors=True) if p.is_dir() else p.unlink(missing_ok=True)
        else:
            shutil.rmtree(_ROOT, ignore_errors=True)
            _ROOT = None


def viol(sig: str, msg: str, case: dict) -> dict:
    return dict(sig=sig, msg=msg[:1500], case=case)


def result(evals=1, nontrivial=0, viol=None, outcomes=None, sample=None, **kw) -> dict:
    r = dict(evals=evals, nontrivial=nontrivial, viol=viol or [], outcomes=outcomes or [])
    if sample is not None:
        r["sample"] = sample
    r.update(kw)
    return r
