"""Scripted stand-ins for `Tracker.rng` (a numpy Generator) that do not depend on HOW the tracker draws.

The statements speak about the random displacement, not about the calls that produce it: one `normal(size=n)` per direction,
one block `standard_normal((n, 3))`, `normal(0, sigma, n)`, drawing more numbers than needed - all are legitimate. A scripted
generator therefore defines a STREAM of standard-normal stand-in values addressed by position (position 0 = first scalar handed out
since `next_step()`), serves it through every spelling of `normal` / `standard_normal`, hands out copies (the caller may scale in
place) and logs what it handed out. Which stream value drives which particle and direction is for the oracle to infer, not to assume.
"""

from __future__ import annotations

import numpy as np

from mc import util


class StreamRng:
    def __init__(self):
        self.pos = 0  # position in the current step's stream
        self.calls = 0
        self.step = 0
        self.log = []  # per call: 1-D array of the standard values handed out (copies)
        self.step_log = []  # the same, for the current step only

    # ---- to be provided
    def values(self, step: int, start: int, n: int) -> np.ndarray:
        raise NotImplementedError

    # ---- harness side
    def next_step(self):
        self.step += 1
        self.pos = 0
        self.step_log = []

    def drawn_this_step(self) -> np.ndarray:
        return np.concatenate(self.step_log) if self.step_log else np.zeros(0)

    # ---- numpy Generator side
    def _draw(self, size):
        if size is None:
            shape, n = None, 1
        else:
            shape = (int(size),) if np.isscalar(size) else tuple(int(s) for s in size)
            n = int(np.prod(shape)) if shape else 1
        v = np.asarray(self.values(self.step, self.pos, n), dtype=float).reshape(n)
        self.pos += n
        self.calls += 1
        self.log.append(v.copy())
        self.step_log.append(v.copy())
        if shape is None:
            return float(v[0])
        return v.copy().reshape(shape)

    def normal(self, loc=0.0, scale=1.0, size=None):
        if size is None:
            b = np.broadcast(loc, scale)
            size = b.shape if b.shape else None
        return loc + scale * self._draw(size)

    def standard_normal(self, size=None, dtype=np.float64, out=None):
        if out is not None:
            out[...] = self._draw(out.shape)
            return out
        z = self._draw(size)
        return z if size is None else z.astype(dtype, copy=False)

    def __getattr__(self, name):
        # uniform(), random(), integers() ...: a displacement built from other primitives cannot be scripted; that is a limit of
        # the harness (exit 2, "cannot decide"), never a violation
        raise util.HarnessError(f"tracker used rng.{name}: only normal()/standard_normal() can be scripted")


class Constant(StreamRng):
    """Every scalar of step s is vals[s] (0 beyond the list): the same kick for every particle and direction, whatever the draw structure."""

    def __init__(self, vals):
        super().__init__()
        self.vals = list(vals)

    def values(self, step, start, n):
        return np.full(n, self.vals[step] if step < len(self.vals) else 0.0)


class Alternating(StreamRng):
    """+val, -val, +val ... along the stream."""

    def __init__(self, val):
        super().__init__()
        self.val = val

    def values(self, step, start, n):
        p = np.arange(start, start + n)
        return np.where(p % 2 == 0, self.val, -self.val).astype(float)


class Placed(StreamRng):
    """Zeros, except scripted values at (step, position)."""

    def __init__(self, dev):
        super().__init__()
        self.dev = dict(dev)  # {(step, position): value}

    def values(self, step, start, n):
        out = np.zeros(n)
        for (s, p), val in self.dev.items():
            if s == step and start <= p < start + n:
                out[p - start] = val
        return out


class Tagged(StreamRng):
    """All values distinct: scale * sign * (1 + 1e-3*(c+1) + 1e-5*(i+1)) for the i-th scalar of the c-th call (signs alternate)."""

    def __init__(self, scale):
        super().__init__()
        self.scale = scale
        self.big = False

    def values(self, step, start, n):
        k = self.calls
        i = np.arange(n)
        if n > 9000:
            # a tracker that draws a large table at once: values can no longer all be told apart within the matching tolerance;
            # `big` tells the oracle not to conclude "shared" from two matches on neighbouring table entries
            self.big = True
        sign = np.where((k + i) % 2 == 0, 1.0, -1.0)
        return self.scale * sign * (1 + 1e-3 * (k + 1) + 1e-7 * ((i % 9000) + 1) + 1e-12 * (i // 9000))


class Pattern(StreamRng):
    """Deterministic, moderately varied values by global scalar index (for differential checks)."""

    def __init__(self):
        super().__init__()
        self.count = 0

    def values(self, step, start, n):
        i = np.arange(self.count, self.count + n)
        self.count += n
        return 0.3 * np.where(i % 2 == 0, 1.0, -1.0) * (1 + 0.1 * ((i * 7) % 5))
