"""Drivers: run the real ladim on a configuration (through main(), or Model with inspection)."""

from __future__ import annotations

from pathlib import Path

from mc import util, world

PLUG = Path(__file__).resolve().parents[1] / "plugins"


def plug(name: str) -> str:
    return str(PLUG / name)


class RunFailed(Exception):
    def __init__(self, kind, detail):
        super().__init__(f"{kind}: {detail}")
        self.kind, self.detail = kind, detail


def run_main(conf: dict, d: Path, name="ladim.yaml") -> None:
    """Run ladim.main.main on the configuration. Raises RunFailed on any abnormal end."""
    from ladim.main import main

    path = world.write_yaml(Path(d) / name, conf)
    try:
        main(str(path), loglevel=60)
    except SystemExit as e:
        raise RunFailed("SystemExit", repr(e.code)) from e
    except util.HarnessError:
        raise
    except Exception as e:
        raise RunFailed(type(e).__name__, str(e)[:300]) from e


def make_model(conf: dict, d: Path, name="ladim.yaml", via_file=False, share_tables=False):
    """Build the Model. By default the version-2 dictionary is handed to configure_v2 directly
    (the YAML round trip costs 25 ms and is exercised by the main()-level checks)."""
    import copy

    from ladim.configure import configure, configure_v2
    from ladim.model import Model

    try:
        if via_file:
            config = configure(str(world.write_yaml(Path(d) / name, conf)))
        else:
            if share_tables:  # a user building several set-ups in one script: fresh sections, but the variable tables inside them are the same objects
                config = {sec: (dict(v) if isinstance(v, dict) else v) for sec, v in conf.items()}
            else:
                config = copy.deepcopy(world.clean(conf))
            try:
                configure_v2(config)
            except KeyError as err:
                raise SystemExit(3) from err
        return Model(config)
    except SystemExit as e:
        raise RunFailed("SystemExit", repr(e.code)) from e
    except util.HarnessError:
        raise
    except Exception as e:
        raise RunFailed(type(e).__name__, str(e)[:300]) from e


def run_model(conf: dict, d: Path, after_step=None, name="ladim.yaml", nsteps=None, share_tables=False):
    """Same loop as main(), with an inspection callback after every model.update()."""
    model = make_model(conf, d, name, share_tables=share_tables)
    try:
        n = model.timer.Nsteps if nsteps is None else nsteps
        for k in range(n):
            model.update()
            if after_step is not None:
                after_step(model, k)
        model.finish()
    except SystemExit as e:
        raise RunFailed("SystemExit", repr(e.code)) from e
    except util.HarnessError:
        raise
    except Exception as e:
        raise RunFailed(type(e).__name__, str(e)[:300]) from e
    return model


def analytic_conf(d: Path, start, stop, dt, release_rows, outvars=("pid", "X", "Y", "Z"), period=None, numrec=0,
                  layout="sparse", field="still", params=None, grid=None, tracker=None, state=None, ibm=None,
                  particle_out=None, reference=None, reversed_=False, filename="out.nc", release_extra=None,
                  out_dtype="f8"):
    """Configuration with analytic grid/forcing plug-ins; writes the release file."""
    d = Path(d)
    world.write_release(d / "release.rls", release_rows)
    out = dict(
        filename=str(d / filename),
        output_period=period if period is not None else dt,
        instance_variables={v: world.ovar("i4" if v == "pid" else out_dtype) for v in outvars},
        layout=layout,
    )
    if numrec:
        out["numrec"] = numrec
    if particle_out:
        out["particle_variables"] = particle_out
    g = dict(module=plug("agrid.py"), filename="none")
    g.update(grid or {})
    f = dict(module=plug("aforce.py"), filename="none", field=field, params=params or {})
    rel = dict(release_file=str(d / "release.rls"))
    rel.update(release_extra or {})
    return world.base_config(start, stop, dt, g, f, rel, out, tracker=tracker, state=state, ibm=ibm,
                             reference=reference, reversed_=reversed_)


def roms_conf(d: Path, forcing_pattern, start, stop, dt, release_rows, outvars=("pid", "X", "Y", "Z"), period=None, numrec=0,
              layout="sparse", tracker=None, state=None, ibm=None, particle_out=None, reference=None, reversed_=False,
              filename="out.nc", release_extra=None, out_dtype="f8", subgrid=None, extra_forcing=None, gridfile=None,
              release_name="release.rls"):
    """Configuration with the real ROMS grid and forcing on generated files; writes the release file."""
    d = Path(d)
    world.write_release(d / release_name, release_rows)
    out = dict(
        filename=str(d / filename),
        output_period=period if period is not None else dt,
        instance_variables={v: world.ovar("i4" if v == "pid" else out_dtype) for v in outvars},
        layout=layout,
    )
    if numrec:
        out["numrec"] = numrec
    if particle_out:
        out["particle_variables"] = particle_out
    g = dict(module="ladim.ROMS", filename=str(gridfile) if gridfile else str(sorted(Path(d).glob(Path(forcing_pattern).name))[0]) if "*" in str(forcing_pattern) else str(forcing_pattern))
    if subgrid is not None:
        g["subgrid"] = list(subgrid)
    f = dict(module="ladim.ROMS", filename=str(forcing_pattern))
    if extra_forcing:
        f["extra_forcing"] = list(extra_forcing)
    rel = dict(release_file=str(d / release_name))
    rel.update(release_extra or {})
    return world.base_config(start, stop, dt, g, f, rel, out, tracker=tracker, state=state, ibm=ibm,
                             reference=reference, reversed_=reversed_)


def run_config_file(path, rng=None, after_step=None):
    """configure(file) -> Model -> the same loop as main(); optionally replaces the tracker's random generator."""
    from ladim.configure import configure
    from ladim.model import Model

    try:
        config = configure(str(path))
        model = Model(config)
        if rng is not None:
            model.tracker.rng = rng
        for k in range(model.timer.Nsteps):
            model.update()
            if after_step is not None:
                after_step(model, k)
        model.finish()
    except SystemExit as e:
        raise RunFailed("SystemExit", repr(e.code)) from e
    except util.HarnessError:
        raise
    except Exception as e:
        raise RunFailed(type(e).__name__, str(e)[:300]) from e
    return model, config


def run_main_file(path) -> None:
    """Run ladim.main.main on an existing configuration file."""
    from ladim.main import main

    try:
        main(str(path), loglevel=60)
    except SystemExit as e:
        raise RunFailed("SystemExit", repr(e.code)) from e
    except util.HarnessError:
        raise
    except Exception as e:
        raise RunFailed(type(e).__name__, str(e)[:300]) from e
