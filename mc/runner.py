"""Runner: enumerates a property's bounded space, executes every case on the real ladim
code (16 forked workers), compares with the property's reference model, confirms any
violation by replay in a fresh interpreter, matches it against known_findings.json and
writes evidence/<id>.json.

Exit status: 0 = held on everything explored (KNOWN-FINDING lines allowed),
1 = VIOLATION line(s) printed, 2 = harness error (never a verdict).
"""

from __future__ import annotations

import argparse
import hashlib
import importlib
import json
import multiprocessing as mp
import os
import subprocess
import sys
import time
import traceback
from pathlib import Path

VERIF = Path(__file__).resolve().parents[1]
REPO = Path(os.environ.get("LADIM2_VERIF_REPO", "/repo"))  # override: only the seed tooling (parallel scratch worktrees, with PYTHONPATH) sets it
PY = "/venv/bin/python"

_MOD = None


def _warmup(mod) -> None:
    """The warm-up only compiles the kernels. On a broken tree it may fail like any run: that is for the cases to report (as violations),
    not a reason to die with a traceback before the first case."""
    try:
        mod.warmup()
    except util.HarnessError:
        raise
    except BaseException as e:  # noqa: BLE001
        print(f"note: warm-up run failed ({type(e).__name__}: {str(e)[:200]}); continuing, the cases decide")


def load_prop(pid: str):
    return importlib.import_module(f"mc.props.{pid.lower()}")


def _worker_init(pid: str) -> None:
    global _MOD
    from mc import util

    util.silence()
    _MOD = load_prop(pid)


def _worker_run(item):
    idx, case = item
    from mc import util

    try:
        res = _MOD.run_case(case)
    except Exception:  # an unexpected exception inside the harness itself (incl. HarnessError)
        res = dict(harness_error=traceback.format_exc())
    res["idx"] = idx
    util.cleanup_scratch(keep_root=True)
    return res


def repo_fingerprint() -> dict:
    def git(*a):
        return subprocess.run(
            ["git", "-C", str(REPO), *a], capture_output=True, text=True, check=False
        ).stdout

    diff = git("diff", "HEAD")
    return dict(
        head=git("rev-parse", "HEAD").strip(),
        dirty_sha1=hashlib.sha1(diff.encode()).hexdigest() if diff else "",
    )


def load_known(pid: str) -> list[dict]:
    f = VERIF / "known_findings.json"
    if not f.exists():
        return []
    return [e for e in json.loads(f.read_text())["findings"] if e["property"] == pid]


def write_replay(pid: str, v: dict, tier: str, seed: int) -> Path:
    d = (Path(os.environ["LADIM2_VERIF_OUT"]) if os.environ.get("LADIM2_VERIF_OUT") else VERIF) / "replays" / pid
    d.mkdir(parents=True, exist_ok=True)
    body = dict(
        property=pid,
        tier=tier,
        seed=seed,
        repo=repo_fingerprint(),
        sig=v["sig"],
        msg=v["msg"],
        case=v["case"],
    )
    key = hashlib.sha1(
        json.dumps([v["sig"], v["case"]], sort_keys=True).encode()
    ).hexdigest()[:12]
    p = d / f"{key}.json"
    p.write_text(json.dumps(body, indent=1, sort_keys=True))
    return p


def replay(pid: str, path: Path, quiet: bool = False) -> int:
    """Re-run the single case in this (fresh) interpreter. Exit 1 if it still fails."""
    from mc import util

    util.silence()
    mod = load_prop(pid)
    os.environ.update(getattr(mod, "ENV", {}))
    body = json.loads(Path(path).read_text())
    if hasattr(mod, "warmup"):
        _warmup(mod)
    res = mod.run_case(body["case"])
    for _ in range(int(body.get("repeat", 1)) - 1):  # violations that need state carried over from an earlier identical call
        r2 = mod.run_case(body["case"])
        res.setdefault("viol", []).extend(r2.get("viol", []))
    util.cleanup_scratch()
    if res.get("harness_error"):
        print(res["harness_error"])
        return 2
    sigs = [v["sig"] for v in res.get("viol", [])]
    if not quiet:
        print(f"replay of {path}: expected sig={body['sig']!r}")
        for v in res.get("viol", []):
            print(f"  still fails: [{v['sig']}] {v['msg']}")
        if not sigs:
            print("  passes now")
    print("REPLAY-SIGS " + json.dumps(sigs))
    return 1 if sigs else 0


def confirm(pid: str, path: Path, sig: str) -> bool | None:
    """Fresh-interpreter confirmation. True = reproduced with the same signature,
    False = did not reproduce (harness non-determinism), None = replay crashed."""
    env = dict(os.environ, PYTHONHASHSEED="0")
    r = subprocess.run(
        [PY, "-m", "mc.runner", pid, "--replay", str(path), "--quiet"],
        cwd=VERIF,
        env=env,
        capture_output=True,
        text=True,
        check=False,
    )
    for line in r.stdout.splitlines():
        if line.startswith("REPLAY-SIGS "):
            sigs = json.loads(line[len("REPLAY-SIGS ") :])
            # reproduced = the same case violates the property again in a fresh interpreter (normally with the same
            # signature; a history-dependent defect may surface through another facet of the same case)
            return sig in sigs or bool(sigs)
    sys.stderr.write(r.stdout[-2000:] + r.stderr[-2000:])
    return None


def main(argv=None) -> int:
    ap = argparse.ArgumentParser()
    ap.add_argument("prop")
    ap.add_argument("--tier", default=os.environ.get("VERIF_TIER", "quick"))
    ap.add_argument("--replay")
    ap.add_argument("--quiet", action="store_true")
    ap.add_argument("--jobs", type=int, default=int(os.environ.get("VERIF_JOBS", "16")))
    ap.add_argument("--budget", type=float, default=None, help="wall seconds cap")
    ap.add_argument("--no-confirm", action="store_true")
    a = ap.parse_args(argv)
    pid = a.prop.upper()
    if not os.environ.get("LADIM2_VERIF_SCRATCH"):  # one scratch directory for this run and all its workers and replays, removed at exit
        import atexit
        import shutil
        import tempfile

        _base = "/dev/shm" if os.path.isdir("/dev/shm") and os.access("/dev/shm", os.W_OK) else None
        _run_dir = tempfile.mkdtemp(prefix="ladim_verif_run_", dir=_base)
        os.environ["LADIM2_VERIF_SCRATCH"] = _run_dir
        _owner = os.getpid()
        atexit.register(lambda: shutil.rmtree(_run_dir, ignore_errors=True) if os.getpid() == _owner else None)
    os.environ.setdefault("PYTHONHASHSEED", "0")
    sys.path.insert(0, str(VERIF))

    if a.replay:
        return replay(pid, Path(a.replay), a.quiet)

    tier = a.tier
    assert tier in ("quick", "thorough")
    seed = int(os.environ.get("VERIF_SEED", "0"))
    budget = a.budget or (900.0 if tier == "quick" else 6 * 3600.0)
    t0 = time.time()

    from mc import util

    util.silence()
    import ladim

    if not str(Path(ladim.__file__).resolve()).startswith(str(REPO)):
        print(f"HARNESS-ERROR: ladim imported from {ladim.__file__}, not /repo")
        return 2

    mod = load_prop(pid)
    os.environ.update(getattr(mod, "ENV", {}))  # e.g. NUMBA_BOUNDSCHECK, before numba is imported
    cases = list(mod.cases(tier, seed))
    if hasattr(mod, "warmup"):
        _warmup(mod)  # numba JIT once, inherited by the forked workers
    # determinism self-test: first case twice, identical observations required
    if cases:
        r1 = mod.run_case(cases[0])
        r2 = mod.run_case(cases[0])
        k = lambda r: json.dumps(  # noqa: E731
            [r.get("outcomes"), [v["sig"] for v in r.get("viol", [])], r.get("evals")],
            sort_keys=True,
            default=str,
        )
        if k(r1) != k(r2) and not (r1.get("viol") or r2.get("viol")):
            print("HARNESS-ERROR: first case not deterministic\n", k(r1), "\n", k(r2))
            return 2
        util.cleanup_scratch(keep_root=True)

    agg = dict(evals=0, nontrivial=0, states=0, transitions=0, traces=0)
    outcomes: set = set()
    viols: list[dict] = []
    samples: list = []
    extra: dict = {}
    done = 0
    cap_hit = False
    harness_errors = []

    ctx = mp.get_context("fork")
    items = list(enumerate(cases))
    nproc = max(1, min(a.jobs, len(items)))
    chunk = max(1, min(64, len(items) // (nproc * 8) or 1))
    with ctx.Pool(nproc, initializer=_worker_init, initargs=(pid,)) as pool:
        for res in pool.imap_unordered(_worker_run, items, chunksize=chunk):
            done += 1
            if res.get("harness_error"):
                harness_errors.append((res["idx"], res["harness_error"]))
                continue
            for k in agg:
                agg[k] += int(res.get(k, 0))
            for o in res.get("outcomes", []):
                if len(outcomes) < 200000:
                    outcomes.add(o if isinstance(o, str) else json.dumps(o, default=str))
            for v in res.get("viol", []):
                v["idx"] = res["idx"]
                viols.append(v)
            for kx, vx in res.get("extra", {}).items():
                extra[kx] = extra.get(kx, 0) + vx
            if res.get("sample") is not None and (len(samples) < 4 or res["idx"] % 9973 == seed % 9973) and len(samples) < 8:
                samples.append(res["sample"])
            if time.time() - t0 > budget:
                cap_hit = True
                pool.terminate()
                break
    util.cleanup_scratch()

    if harness_errors:
        idx, tb = min(harness_errors)
        print(f"HARNESS-ERROR in case #{idx}: {json.dumps(cases[idx], default=str)[:600]}\n{tb}")
        return 2

    # ---- triage violations: known findings vs new ----
    known = load_known(pid)
    known_open = {e["sig"]: e for e in known if e.get("status") == "known"}
    by_sig: dict[str, list[dict]] = {}
    for v in viols:
        by_sig.setdefault(v["sig"], []).append(v)
    new_lines, known_lines, unconfirmed = [], [], []
    n_new = 0
    for sig, vs in sorted(by_sig.items()):
        vs.sort(key=lambda v: (v["idx"], json.dumps(v["case"], sort_keys=True, default=str)))
        first = vs[0]
        if sig in known_open:
            known_lines.append(
                f"KNOWN-FINDING: property={pid} [{sig}] {known_open[sig]['what']} ({len(vs)} cases this run)"
            )
            continue
        path = write_replay(pid, first, tier, seed)
        if not a.no_confirm:
            ok = confirm(pid, path, sig)
            if ok is False:
                # not reproduced by a single execution: the violation may need state left over by an earlier call in the
                # same process (a cache, a mutated default). Replay the case twice in one fresh interpreter.
                body = json.loads(path.read_text())
                body["repeat"] = 2
                body["note"] = "history dependent: shows only when the case is executed twice in one process"
                path.write_text(json.dumps(body, indent=1, sort_keys=True))
                ok = confirm(pid, path, sig)
            if ok is not True:
                # keep going: another signature of the same run may reproduce (a defect that needs the history of the whole worker process
                # shows in one signature by accident and, reproducibly, in the signature of the case that builds the history itself)
                unconfirmed.append((path, sig, first["msg"], ok))
                continue
        n_new += len(vs)
        new_lines.append((path, sig, first["msg"], len(vs)))

    wall = time.time() - t0
    if not samples and cases:
        samples = [cases[0]]
    bounds = mod.bounds(tier, seed) if hasattr(mod, "bounds") else {}
    cov = dict(
        states=max(agg["states"], agg["evals"]),
        transitions=max(agg["transitions"], agg["evals"]),
        traces_validated_against_impl=agg["traces"] or agg["evals"],
        evaluations=agg["evals"],
        distinct_nontrivial=agg["nontrivial"],
        rule=mod.RULE,
        samples=samples[:8],
        distinct_outcomes=len(outcomes),
        cases_dispatched=len(cases),
        cases_completed=done,
        exhaustive=not cap_hit,
        bounds=bounds,
        repo=repo_fingerprint(),
        known_findings_hit=sorted(s for s in by_sig if s in known_open),
        engine="hand-written explicit-state / bounded-exhaustive explorer (mc/runner.py) driving the real ladim objects",
    )
    if cap_hit:
        cov["cap"] = f"wall budget {budget:.0f}s hit after {done}/{len(cases)} shards"
    cov.update(extra)
    ev = dict(
        property_id=pid,
        tier=tier,
        seed=seed,
        level=mod.LEVEL,
        coverage=cov,
        assumptions=list(mod.ASSUMPTIONS),
        wall_s=round(wall, 2),
        violations=n_new,
    )
    evdir = Path(os.environ["LADIM2_VERIF_OUT"]) / "evidence" if os.environ.get("LADIM2_VERIF_OUT") else VERIF / "evidence"
    evdir.mkdir(parents=True, exist_ok=True)
    (evdir / f"{pid}.json").write_text(json.dumps(ev, indent=1, default=str))

    print(
        f"{pid} tier={tier} seed={seed}: cases={done}/{len(cases)} evals={agg['evals']} "
        f"nontrivial={agg['nontrivial']} states={cov['states']} transitions={cov['transitions']} "
        f"outcomes={len(outcomes)} wall={wall:.1f}s exhaustive={not cap_hit}"
    )
    for line in known_lines:
        print(line)
    for path, sig, msg, n in new_lines:
        print(f"  [{sig}] x{n}: {msg}")
        print(f"VIOLATION property={pid} replay={path}")
    for path, sig, msg, ok in unconfirmed:
        print(f"{'UNCONFIRMED' if new_lines else 'HARNESS-ERROR'}: violation [{sig}] did not reproduce in a fresh interpreter ({ok}); replay={path}\n  {msg}")
    if new_lines:
        return 1
    if unconfirmed:
        return 2
    if agg["evals"] == 0 or agg["nontrivial"] < 2:  # a silent run must not be a vacuous one
        print("HARNESS-ERROR: vacuous run (no non-trivial cases)")
        return 2
    return 0


if __name__ == "__main__":
    sys.exit(main())
